// Package scn replays behaviours of spec/ArtelaEVM.tla (emitted by
// ArtelaEVMScn as JSON) on the real artela-evm and compares the projection of
// the real state with the state the model predicts.
package scn

import (
	"bytes"
	"encoding/hex"
	"encoding/json"
	"fmt"
	"math/big"
	"sort"
	"strings"

	"github.com/artela-network/artela-evm/vm"
	"github.com/ethereum/go-ethereum/common"
	"github.com/ethereum/go-ethereum/crypto"
	"github.com/holiman/uint256"
	"verif/harness/evmx"
)

// ---------------------------------------------------------------------------
// scenario as emitted by TLC

type Instr struct {
	Op    string `json:"op"`
	Kind  string `json:"kind"`
	Tgt   string `json:"tgt"`
	Val   int    `json:"val"`
	Alen  int    `json:"alen"`
	Over  bool   `json:"over"`
	Slot  int    `json:"slot"`
	Child int    `json:"child"`
	Init  string `json:"init"`
	Gm    string `json:"gm"`
}

type FrameDesc struct {
	ID     int     `json:"id"`
	Kind   string  `json:"kind"`
	Parent int     `json:"parent"`
	CodeAt string  `json:"codeAt"`
	Self   string  `json:"self"`
	Alen   int     `json:"alen"`
	Init   string  `json:"init"`
	Prog   []Instr `json:"prog"`
	Err    string  `json:"err"`
	Ret    string  `json:"ret"`
	Flags  []int   `json:"flags"`
	Done   bool    `json:"done"`
}

type TopReq struct {
	Kind  string `json:"kind"`
	Tgt   string `json:"tgt"`
	Val   int    `json:"val"`
	Alen  int    `json:"alen"`
	JpOn  bool   `json:"jpOn"`
	Frame int    `json:"frame"`
	Init  string `json:"init"`
}

type NodeX struct {
	Index    int    `json:"index"`
	From     string `json:"from"`
	To       string `json:"to"`
	Value    int    `json:"value"`
	Parent   int    `json:"parent"`
	Children []int  `json:"children"`
	Ret      string `json:"ret"`
	Err      string `json:"err"`
	DFrame   int    `json:"dframe"`
	DInit    string `json:"dinit"`
}

type FiringX struct {
	Contract string `json:"contract"`
	Point    string `json:"point"`
	From     string `json:"from"`
	Value    int    `json:"value"`
	Frame    int    `json:"frame"`
	Alen     int    `json:"alen"`
	Index    int    `json:"index"` // 1-based in the model
	Ret      string `json:"ret"`
	Err      string `json:"err"`
	Failed   bool   `json:"failed"`
	Bound    bool   `json:"bound"`
}

type EvX struct {
	Fid   int    `json:"fid"`
	E     string `json:"e"`
	Kind  string `json:"kind"`
	From  string `json:"from"`
	To    string `json:"to"`
	Top   bool   `json:"top"`
	Value int    `json:"value"`
	Ok    bool   `json:"ok"`
}

type ResX struct {
	Err   string `json:"err"`
	Ret   string `json:"ret"`
	Flags []int  `json:"flags"`
}

type JrnX struct {
	Acct string `json:"acct"`
	Slot int    `json:"slot"`
	Idx  int    `json:"idx"`
	Vals []int  `json:"vals"`
}

// FlexMap decodes either {} / {"k":v} or [] (TLC prints an empty function as []).
type FlexMap map[string]json.RawMessage

func (m *FlexMap) UnmarshalJSON(b []byte) error {
	b = bytes.TrimSpace(b)
	if len(b) > 0 && b[0] == '[' {
		*m = FlexMap{}
		return nil
	}
	mm := map[string]json.RawMessage{}
	if err := json.Unmarshal(b, &mm); err != nil {
		return err
	}
	*m = mm
	return nil
}

type Expect struct {
	Bal     FlexMap             `json:"bal"`
	Stor    FlexMap             `json:"stor"`
	Code    FlexMap             `json:"code"`
	Nonce   FlexMap             `json:"nonce"`
	Logs    []string            `json:"logs"`
	Dead    []string            `json:"dead"`
	Exists  []string            `json:"exists"`
	Nodes   []NodeX             `json:"nodes"`
	Cur     int                 `json:"cur"`
	Fired   []FiringX           `json:"fired"`
	Ev      []EvX               `json:"ev"`
	Results []ResX              `json:"results"`
	Writes  []string            `json:"writes"`
	Keys    [][]json.RawMessage `json:"keys"`
	Chg     []JrnX              `json:"chg"`
	BalJ    []JrnX              `json:"balj"`
}

type Scenario struct {
	Tops     []TopReq    `json:"tops"`
	Frames   []FrameDesc `json:"frames"`
	FailPos  int         `json:"failPos"`
	FailKind string      `json:"failKind"`
	Bound    []string    `json:"bound"`
	Cancun   bool        `json:"cancun"`
	Berlin   bool        `json:"berlin"`
	Expect   Expect      `json:"expect"`
}

// ParseLine turns one line of TLC output (`"SCN {...}"`) into a scenario.
func ParseLine(line string) (*Scenario, error) {
	line = strings.TrimSpace(line)
	if !strings.HasPrefix(line, `"SCN `) {
		return nil, nil
	}
	body := line[5 : len(line)-1]
	body = strings.ReplaceAll(body, `\"`, `"`)
	body = strings.ReplaceAll(body, `\\`, `\`)
	s := &Scenario{}
	if err := json.Unmarshal([]byte(body), s); err != nil {
		return nil, fmt.Errorf("bad scenario json: %v", err)
	}
	return s, nil
}

// ---------------------------------------------------------------------------
// concrete world

var (
	AddrA  = common.HexToAddress("0x00000000000000000000000000000000000000aa")
	AddrB  = common.HexToAddress("0x00000000000000000000000000000000000000bb")
	AddrN  = common.HexToAddress("0x000000000000000000000000000000000000cc01")
	AddrP  = common.HexToAddress("0x0000000000000000000000000000000000000004")
	AddrPW = common.HexToAddress("0x0000000000000000000000000000000000000066")
	AddrZ  = common.HexToAddress("0x000000000000000000000000000000000000dd02")
	TypeID = common.HexToHash("0x7700000000000000000000000000000000000000000000000000000000000077")
)

var StubRuntime = []byte{byte(vm.STOP)}

// topGas is ample: a frame that halts exceptionally forfeits 63/64 of what is left, and the model has no notion
// of running out of gas because of that (up to 4 such frames may precede a 20000-gas SSTORE)
const topGas = uint64(1_000_000_000_000)

// InitCode for the init program names of the model.
func InitCode(name string) []byte {
	switch name {
	case "stop":
		return evmx.InitCodeFor(StubRuntime, nil)
	case "sstore":
		return evmx.InitCodeFor(StubRuntime, evmx.NewAsm().Push(1).Push(0).Op(vm.SSTORE).Bytes())
	case "regjv":
		// SSTORE(0,1); register key "k0" for slot 0; journal its value; deploy the stub
		a := evmx.NewAsm().Push(1).Push(0).Op(vm.SSTORE)
		a.MStore32(0xC0, []byte{2})
		a.MStoreBytes(0xE0, []byte("k0"))
		a.PushBytes(TypeID[:]).Push(0).Push(0).Push(0xC0).Op(vm.VSVJNAL)
		a.PushBytes(TypeID[:]).Push(1).Push(0).Push(0).Op(vm.VVJNAL)
		return evmx.InitCodeFor(StubRuntime, a.Bytes())
	case "revert":
		return evmx.NewAsm().MStore32(0x80, bytes.Repeat([]byte{0xdd}, 32)).Push(32).Push(0x80).Op(vm.REVERT).Bytes()
	case "invalid":
		return []byte{byte(vm.INVALID)}
	case "nodeposit":
		// RETURN(0, 100): a 100-byte runtime whose 20000-gas deposit the (low-gas) top-level create cannot pay
		return evmx.NewAsm().Push(100).Push(0).Op(vm.RETURN).Bytes()
	case "big":
		// RETURN(0, 0x6001): larger than the EIP-170 limit
		return evmx.NewAsm().Push(0x6001).Push(0).Op(vm.RETURN).Bytes()
	}
	panic("unknown init prog " + name)
}

type world struct {
	names map[string]common.Address
	// unit is the number of wei one model value unit stands for: 1, or 2^64+1 so that every non-zero value, balance
	// and journal entry exceeds 64 bits (the model's arithmetic is the same under either scale)
	unit *big.Int
	// str1: the scenario registers / journals slot 1, which then is a Solidity string variable: its values are stored as one-byte
	// short strings and journaled with the reference-type instructions (RSVJNAL / VRJNAL); slot 0 stays a value-type variable
	str1 bool
}

// strWord: the storage word of the short string <<v>> (empty for 0)
func strWord(v int) common.Hash {
	var h common.Hash
	if v != 0 {
		h[0] = byte(v)
		h[31] = 2
	}
	return h
}

var bigUnit = new(big.Int).Add(new(big.Int).Lsh(big.NewInt(1), 64), big.NewInt(1))

func (w *world) wei(v int) *big.Int { return new(big.Int).Mul(big.NewInt(int64(v)), w.unit) }

func (w *world) addr(name string) common.Address {
	if a, ok := w.names[name]; ok {
		return a
	}
	if i := strings.IndexByte(name, '#'); i > 0 {
		var n uint64
		fmt.Sscanf(name[i+1:], "%d", &n)
		a := crypto.CreateAddress(w.addr(name[:i]), n)
		w.names[name] = a
		return a
	}
	if i := strings.IndexByte(name, '~'); i > 0 {
		ic := InitCode(name[i+1:])
		a := crypto.CreateAddress2(w.addr(name[:i]), [32]byte{}, crypto.Keccak256(ic))
		w.names[name] = a
		return a
	}
	panic("unknown address name " + name)
}

func newWorld() *world {
	return &world{unit: big.NewInt(1), names: map[string]common.Address{
		"eoa": evmx.DefaultOrigin, "a": AddrA, "b": AddrB, "n": AddrN, "p": AddrP, "pw": AddrPW, "z": AddrZ,
	}}
}

// Calldata of the frame with the given id and length.
func Calldata(id, alen int) []byte {
	if alen == 0 {
		return nil
	}
	d := make([]byte, alen)
	d[0] = byte(id)
	for i := 1; i < alen; i++ {
		d[i] = byte(0xA0 + (i+id)%0x50)
	}
	return d
}

var (
	retEE  = bytes.Repeat([]byte{0xee}, 32)
	retDD  = bytes.Repeat([]byte{0xdd}, 32)
	clobb  = bytes.Repeat([]byte{0x77}, 32)
	retBig = make([]byte, 0x6001)
	retRt  = make([]byte, 100)
)

// ctxWritePayload is a well-formed abi.encode(bytes key, bytes value) for 0x66.
func ctxWritePayload() []byte {
	p := make([]byte, 0, 192)
	w := func(v uint64) { p = append(p, common.LeftPadBytes(new(big.Int).SetUint64(v).Bytes(), 32)...) }
	w(64)
	w(128)
	w(1)
	p = append(p, common.RightPadBytes([]byte("k"), 32)...)
	w(1)
	p = append(p, common.RightPadBytes([]byte("v"), 32)...)
	return p
}

// compileBlock turns the instruction list of one frame into byte code.
func (w *world) compileBlock(a *evmx.Asm, prog []Instr, cancun bool, failsAtLast bool) {
	ncall := 0
	for _, in := range prog {
		switch in.Op {
		case "SSTORE":
			if w.str1 && in.Slot == 1 {
				h := strWord(in.Val)
				a.PushBytes(h[:]).Push(1).Op(vm.SSTORE)
			} else {
				a.Push(uint64(in.Val)).Push(uint64(in.Slot)).Op(vm.SSTORE)
			}
		case "LOG":
			a.Push(0).Push(0).Op(vm.LOG0)
		case "TSTORE":
			a.Push(uint64(in.Val)).Push(0).Op(vm.TSTORE)
		case "T2S":
			a.Push(0).Op(vm.TLOAD).Push(1).Op(vm.SSTORE)
		case "REGKEY":
			// name "k<slot>" at 0xC0: [len][bytes]
			a.MStore32(0xC0, []byte{2})
			a.MStoreBytes(0xE0, []byte(fmt.Sprintf("k%d", in.Slot)))
			if w.str1 && in.Slot == 1 {
				a.PushBytes(TypeID[:]).Push(1).Push(0xC0).Op(vm.RSVJNAL)
			} else {
				a.PushBytes(TypeID[:]).Push(0).Push(uint64(in.Slot)).Push(0xC0).Op(vm.VSVJNAL)
			}
		case "JV":
			if w.str1 && in.Slot == 1 {
				a.PushBytes(TypeID[:]).Push(1).Op(vm.VRJNAL)
			} else {
				// VVJNAL pops slot, offset, width, typeId
				a.PushBytes(TypeID[:]).Push(1).Push(0).Push(uint64(in.Slot)).Op(vm.VVJNAL)
			}
		case "SELFDESTRUCT":
			a.PushAddr(w.addr(in.Tgt)).Op(vm.SELFDESTRUCT)
		case "STOP":
			a.Op(vm.STOP)
		case "RETURN":
			a.MStore32(0x80, retEE).Push(32).Push(0x80).Op(vm.RETURN)
		case "REVERT":
			a.MStore32(0x80, retDD).Push(32).Push(0x80).Op(vm.REVERT)
		case "INVALID":
			a.Op(vm.INVALID)
		case "CALL":
			ncall++
			argOff := uint64(0x100 * ncall)
			var data []byte
			if in.Tgt == "pw" {
				data = ctxWritePayload()
			} else {
				data = Calldata(in.Child, in.Alen)
				if in.Child == 0 {
					data = Calldata(0xff, in.Alen)
				}
			}
			a.MStoreBytes(argOff, data)
			retOff := argOff + 0x80
			if in.Over {
				retOff = argOff
			}
			if in.Tgt == "pw" {
				retOff = argOff + 0xC0
			}
			a.Push(32).Push(retOff).Push(uint64(len(data))).Push(argOff)
			gasArg := func() {
				if in.Gm == "none" {
					a.Push(0)
				} else {
					a.Op(vm.GAS)
				}
			}
			switch in.Kind {
			case "CALL":
				a.PushBig(w.wei(in.Val)).PushAddr(w.addr(in.Tgt))
				gasArg()
				a.Op(vm.CALL)
			case "CALLCODE":
				a.PushBig(w.wei(in.Val)).PushAddr(w.addr(in.Tgt))
				gasArg()
				a.Op(vm.CALLCODE)
			case "DELEGATECALL":
				a.PushAddr(w.addr(in.Tgt))
				gasArg()
				a.Op(vm.DELEGATECALL)
			case "STATICCALL":
				a.PushAddr(w.addr(in.Tgt))
				gasArg()
				a.Op(vm.STATICCALL)
			}
			a.Op(vm.POP)
			if in.Over {
				// a later store over the argument area
				a.MStore32(argOff, clobb)
			}
		case "CREATE":
			ncall++
			off := uint64(0x100 * ncall)
			ic := InitCode(in.Init)
			a.MStoreBytes(off, ic)
			if in.Kind == "CREATE2" {
				a.Push(0).Push(uint64(len(ic))).Push(off).PushBig(w.wei(in.Val)).Op(vm.CREATE2)
			} else {
				a.Push(uint64(len(ic))).Push(off).PushBig(w.wei(in.Val)).Op(vm.CREATE)
			}
			a.Op(vm.POP)
			// overwrite the init code area afterwards (C08: recorded init code must not change)
			a.MStore32(off, clobb)
		default:
			panic("unknown op " + in.Op)
		}
	}
	// A frame that the model ends with a non-halting instruction ends there because that instruction must fail (a write in a static
	// frame, an unregistered journal key, an opcode the fork does not have): what follows is a STOP, so that a real instruction
	// that wrongly succeeds makes the frame succeed and the difference shows in the caller's flag. Otherwise the model always ends
	// a running frame with a halt instruction; guard anyway.
	if failsAtLast {
		a.Op(vm.STOP)
		return
	}
	a.Op(vm.INVALID)
}

// compileContract builds the dispatcher + blocks for the code at `name`.
func (w *world) compileContract(name string, frames []FrameDesc, cancun bool) []byte {
	a := evmx.NewAsm()
	// selector = first byte of calldata (0 when calldata is empty)
	a.Push(0).Op(vm.CALLDATALOAD).Push(0).Op(vm.BYTE)
	var blocks []FrameDesc
	for _, f := range frames {
		if f.CodeAt == name && f.Init == "" && f.Kind != "NONE" {
			blocks = append(blocks, f)
		}
	}
	sel := func(f FrameDesc) int {
		if f.Alen == 0 {
			return 0
		}
		return f.ID
	}
	for _, f := range blocks {
		a.Op(vm.DUP1).Push(uint64(sel(f))).Op(vm.EQ).PushLabel(fmt.Sprintf("b%d", f.ID)).Op(vm.JUMPI)
	}
	a.Op(vm.INVALID)
	for _, f := range blocks {
		a.Label(fmt.Sprintf("b%d", f.ID)).Op(vm.POP)
		last := ""
		if len(f.Prog) > 0 {
			last = f.Prog[len(f.Prog)-1].Op
		}
		halts := map[string]bool{"STOP": true, "RETURN": true, "REVERT": true, "INVALID": true, "SELFDESTRUCT": true}
		w.compileBlock(a, f.Prog, cancun, f.Done && f.Err != "" && last != "" && !halts[last])
	}
	return a.Bytes()
}

// ---------------------------------------------------------------------------
// running a scenario

type Mismatch struct {
	Comp   string `json:"comp"`   // component (maps to property ids)
	Detail string `json:"detail"` // human readable
}

type Outcome struct {
	Mismatches []Mismatch
	Panic      string
	Firings    int
	Steps      int
}

func errClass(err error, panicked string) string {
	if panicked != "" {
		return "panic"
	}
	if err == nil {
		return ""
	}
	switch {
	case err == vm.ErrExecutionReverted:
		return "revert"
	case err == vm.ErrOutOfGas:
		return "oog"
	case err == vm.ErrWriteProtection:
		return "wp"
	case err == vm.ErrInsufficientBalance:
		return "funds"
	case err == vm.ErrDepth:
		return "depth"
	case err == vm.ErrContractAddressCollision:
		return "collision"
	case err == vm.ErrMaxCodeSizeExceeded:
		return "codesize"
	case err == vm.ErrCodeStoreOutOfGas:
		return "codestore"
	}
	msg := err.Error()
	switch {
	case strings.HasPrefix(msg, "invalid opcode"):
		return "invalid"
	case msg == "jp-boom":
		return "jperr"
	case msg == "execution reverted":
		return "jprev"
	case msg == "out of gas":
		return "oog"
	case msg == "storage key node not found" || msg == "unknown account":
		return "jrn"
	case strings.Contains(msg, "required field"):
		return "jperr"
	}
	return "other:" + msg
}

func retToken(b []byte) string {
	switch {
	case len(b) == 0:
		return ""
	case bytes.Equal(b, retEE):
		return "ee"
	case bytes.Equal(b, retDD):
		return "dd"
	case bytes.Equal(b, StubRuntime):
		return "stub"
	case bytes.Equal(b, retBig):
		return "big"
	case bytes.Equal(b, retRt):
		return "rt"
	}
	return "x:" + hex.EncodeToString(b)
}

func provErr(kind string) string {
	switch kind {
	case "oog":
		return "out of gas"
	case "rev":
		return "execution reverted"
	}
	return "jp-boom"
}

type flagObs struct {
	stack   []int         // real frame ordinals (by Enter order), top = last
	pending map[int]bool  // ordinal -> a call-family step was just seen
	flags   map[int][]int // ordinal -> observed success flags
	nEnter  int
}

var callFamily = map[vm.OpCode]bool{vm.CALL: true, vm.CALLCODE: true, vm.DELEGATECALL: true, vm.STATICCALL: true, vm.CREATE: true, vm.CREATE2: true}

// Run executes the scenario on the real EVM for one fork and compares.
// minFork: the oldest rule set on which every instruction of the scenario exists (the model has no notion of forks beyond Cancun/Berlin)
func minFork(s *Scenario) string {
	need := "Frontier"
	up := func(f string) {
		if evmx.ForkIndex(f) > evmx.ForkIndex(need) {
			need = f
		}
	}
	for _, t := range s.Tops {
		if t.Kind == "create2" {
			up("Constantinople")
		}
	}
	for _, f := range s.Frames {
		for _, in := range f.Prog {
			switch {
			case in.Op == "REVERT" || (in.Op == "CALL" && in.Kind == "STATICCALL"):
				up("Byzantium")
			case in.Op == "CREATE2":
				up("Constantinople")
			case in.Op == "CALL" && in.Kind == "DELEGATECALL":
				up("Homestead")
			}
		}
		if f.Init == "revert" {
			up("Byzantium")
		}
	}
	return need
}

func Run(s *Scenario, fork string) (out Outcome) {
	if need := minFork(s); evmx.ForkIndex(fork) < evmx.ForkIndex(need) {
		// a configuration error of the orchestrator, not a finding about the EVM
		out.Mismatches = append(out.Mismatches, Mismatch{Comp: "config.fork", Detail: fmt.Sprintf("scenario uses an instruction that does not exist before %s, asked to replay on %s", need, fork)})
		return
	}
	w := newWorld()
	// every other scenario is replayed with the large wei unit (chosen by a property of the scenario, so that it is reproducible)
	ni := 0
	for _, f := range s.Frames {
		ni += len(f.Prog)
	}
	if (len(s.Frames)*7+s.FailPos*3+ni)%2 == 0 {
		w.unit = bigUnit
	}
	for _, f := range s.Frames {
		for _, in := range f.Prog {
			if (in.Op == "REGKEY" || in.Op == "JV") && in.Slot == 1 {
				w.str1 = true
			}
		}
	}
	env := evmx.NewEnv(evmx.EnvOpts{Fork: fork, Tracer: true, Steps: false})
	st := env.State
	st.SetBalance(w.addr("eoa"), w.wei(5))
	st.SetBalance(AddrA, w.wei(2))
	st.SetNonce(AddrA, 1)
	st.SetNonce(AddrB, 1)
	st.SetNonce(AddrZ, 1)
	st.SetCode(AddrZ, StubRuntime)
	st.SetCode(AddrA, w.compileContract("a", s.Frames, s.Cancun))
	st.SetCode(AddrB, w.compileContract("b", s.Frames, s.Cancun))

	// bindings: benign Aspects on bound contracts, injected failure at firing failPos
	for _, b := range s.Bound {
		for _, pt := range []string{"pre", "post"} {
			env.Host.Bindings[evmx.BindKey(w.addr(b), pt)] = evmx.Binding{Aspects: []evmx.AspectSpec{{ID: "0x00000000000000000000000000000000000a59ec", Loop: 0}}}
		}
	}
	if s.FailPos > 0 {
		env.Host.FailAt = s.FailPos
		env.Host.FailErr = provErr(s.FailKind)
	}

	// observe success flags: the value on top of the stack at the first step of
	// a frame after one of its call-family instructions
	obs := &flagObs{pending: map[int]bool{}, flags: map[int][]int{}}
	env.Rec.OnFrame = func(enter bool) {
		if enter {
			obs.nEnter++
			obs.stack = append(obs.stack, obs.nEnter)
		} else if len(obs.stack) > 0 {
			obs.stack = obs.stack[:len(obs.stack)-1]
		}
	}
	env.Rec.OnStep = func(pc uint64, op vm.OpCode, gas, cost uint64, scope *vm.ScopeContext, depth int) {
		out.Steps++
		if len(obs.stack) == 0 {
			return
		}
		o := obs.stack[len(obs.stack)-1]
		if obs.pending[o] {
			obs.pending[o] = false
			d := scope.Stack.Data()
			fl := 0
			if len(d) > 0 && !d[len(d)-1].IsZero() {
				fl = 1
			}
			obs.flags[o] = append(obs.flags[o], fl)
		}
		if callFamily[op] {
			obs.pending[o] = true
		}
	}

	var results []evmx.Result
	for _, top := range s.Tops {
		env.EVM.IsExecuteJP = top.JpOn
		var res evmx.Result
		if top.Kind == "create" {
			env.Prepare(nil)
			g := topGas
			if top.Init == "nodeposit" {
				g = 5000 // plenty for the init code (about 20 gas), far too little for the 20000-gas code deposit
			}
			res = env.Create(w.addr("eoa"), InitCode(top.Init), g, w.wei(top.Val))
		} else {
			to := w.addr(top.Tgt)
			env.Prepare(&to)
			res = env.Call(w.addr("eoa"), to, Calldata(top.Frame, top.Alen), topGas, w.wei(top.Val))
		}
		results = append(results, res)
		if res.Panic != "" {
			out.Panic = res.Panic
		}
	}
	out.Firings = len(env.Host.Firings)
	cmp := &comparer{s: s, w: w, env: env, out: &out, obs: obs}
	cmp.results(results)
	cmp.world()
	cmp.tree()
	cmp.fired()
	if cmp.events() {
		cmp.flags()
	}
	cmp.journals()
	cmp.writes()
	return
}

// ---------------------------------------------------------------------------
// comparison

type comparer struct {
	s   *Scenario
	w   *world
	env *evmx.Env
	out *Outcome
	obs *flagObs
}

func (c *comparer) miss(comp, format string, a ...interface{}) {
	c.out.Mismatches = append(c.out.Mismatches, Mismatch{Comp: comp, Detail: fmt.Sprintf(format, a...)})
}

func (c *comparer) name(a common.Address) string {
	for n, x := range c.w.names {
		if x == a {
			return n
		}
	}
	return "0x" + hex.EncodeToString(a[:])
}

func (c *comparer) nameHex(h string) string {
	if h == "" {
		return ""
	}
	return c.name(common.HexToAddress(h))
}

func (c *comparer) results(rs []evmx.Result) {
	if len(rs) != len(c.s.Expect.Results) {
		c.miss("result", "number of results %d != %d", len(rs), len(c.s.Expect.Results))
		return
	}
	for i, r := range rs {
		x := c.s.Expect.Results[i]
		if r.Panic != "" {
			c.miss("panic", "top-level call %d panicked: %s", i, r.Panic)
			continue
		}
		if got := errClass(r.Err, r.Panic); got != x.Err && !(x.Err == "jrn" && strings.HasPrefix(got, "other:")) {
			// ("jrn": a refused journal instruction; the error's wording is not part of any property)
			c.miss("result.err", "top %d: error class %q, model %q (%v)", i, got, x.Err, r.Err)
		}
		want := x.Ret
		if c.s.Tops[i].Kind == "create" && x.Err == "" {
			want = "stub"
		}
		if want == "in" {
			// the identity precompile hands its input back
			t := c.s.Tops[i]
			if !bytes.Equal(r.Ret, Calldata(t.Frame, t.Alen)) {
				c.miss("result.ret", "top %d: ret %x, model: the input", i, r.Ret)
			}
			continue
		}
		if got := retToken(r.Ret); got != want {
			c.miss("result.ret", "top %d: ret %q, model %q", i, got, want)
		}
	}
}

func intOf(raw json.RawMessage) int {
	var v int
	_ = json.Unmarshal(raw, &v)
	return v
}

func (c *comparer) allNames() []string {
	names := []string{"eoa", "a", "b", "n", "p", "pw", "z"}
	for _, cr := range []string{"a", "b", "eoa"} {
		for n := 0; n <= 3; n++ {
			names = append(names, fmt.Sprintf("%s#%d", cr, n))
		}
	}
	seen := map[string]bool{}
	for _, f := range c.s.Frames {
		if f.Kind == "CREATE2" && !seen[f.Self] {
			seen[f.Self] = true
			names = append(names, f.Self)
		}
	}
	for _, n := range names {
		c.w.addr(n)
	}
	return names
}

func (c *comparer) world() {
	st := c.env.State
	x := c.s.Expect
	bal0 := map[string]int{"eoa": 5, "a": 2}
	nonce0 := map[string]int{"a": 1, "b": 1, "z": 1}
	code0 := map[string]string{"a": "prog", "b": "prog", "z": "stub"}
	dead := map[string]bool{}
	for _, d := range x.Dead {
		dead[d] = true
	}
	for _, n := range c.allNames() {
		a := c.w.addr(n)
		wantBal := bal0[n]
		if raw, ok := x.Bal[n]; ok {
			wantBal = intOf(raw)
		}
		if got := st.GetBalance(a); got.Cmp(c.w.wei(wantBal)) != 0 {
			c.miss("world.bal", "balance of %s is %v, model %d (x %v wei)", n, got, wantBal, c.w.unit)
		}
		want := [2]int{}
		if raw, ok := x.Stor[n]; ok {
			var v []int
			_ = json.Unmarshal(raw, &v)
			if len(v) == 2 {
				want = [2]int{v[0], v[1]}
			}
		}
		for s := 0; s < 2; s++ {
			got := st.GetState(a, common.BigToHash(big.NewInt(int64(s))))
			wantWord := common.BigToHash(big.NewInt(int64(want[s])))
			if c.w.str1 && s == 1 {
				wantWord = strWord(want[s])
			}
			if got != wantWord {
				c.miss("world.stor", "storage %s[%d] is %x, model %d", n, s, got, want[s])
			}
		}
		wantCode := code0[n]
		if wantCode == "" {
			wantCode = "none"
		}
		if raw, ok := x.Code[n]; ok {
			_ = json.Unmarshal(raw, &wantCode)
		}
		code := st.GetCode(a)
		gotCode := "none"
		switch {
		case len(code) == 0:
		case bytes.Equal(code, StubRuntime):
			gotCode = "stub"
		default:
			gotCode = "prog"
		}
		if gotCode != wantCode {
			c.miss("world.code", "code of %s is %s, model %s", n, gotCode, wantCode)
		}
		wantNonce := nonce0[n]
		if raw, ok := x.Nonce[n]; ok {
			wantNonce = intOf(raw)
		}
		if got := st.GetNonce(a); got != uint64(wantNonce) {
			c.miss("world.nonce", "nonce of %s is %d, model %d", n, got, wantNonce)
		}
		if got := st.HasSuicided(a); got != dead[n] {
			c.miss("world.dead", "self-destruct mark of %s is %v, model %v", n, got, dead[n])
		}
	}
	var logs []string
	for _, l := range st.Logs() {
		logs = append(logs, c.name(l.Address))
	}
	if strings.Join(logs, ",") != strings.Join(x.Logs, ",") {
		c.miss("world.logs", "logs %v, model %v", logs, x.Logs)
	}
}

func (c *comparer) dataOf(n NodeX) []byte {
	if n.DInit != "" {
		return InitCode(n.DInit)
	}
	if n.DFrame <= 0 {
		return []byte("<clobbered>")
	}
	f := c.s.Frames[n.DFrame-1]
	if f.CodeAt == "pw" {
		return ctxWritePayload()
	}
	return Calldata(f.ID, f.Alen)
}

func retBytes(tok string) []byte {
	switch tok {
	case "ee":
		return retEE
	case "dd":
		return retDD
	case "stub":
		return StubRuntime
	case "big":
		return retBig
	case "rt":
		return retRt
	}
	return nil
}

func (c *comparer) tree() {
	d := evmx.DumpTree(c.env.EVM.Tracer())
	x := c.s.Expect
	// structural invariants straight from the property text (C07), model-independent
	n := len(d.Nodes)
	if d.Cur != -1 {
		c.miss("tree.shape", "cursor not at rest after execution: %d", d.Cur)
	}
	if len(d.Beyond) == 2 && (d.Beyond[0] || d.Beyond[1]) {
		c.miss("tree.shape", "lookup beyond the last index returns a node")
	}
	for i, nd := range d.Nodes {
		if int(nd.Index) != i {
			c.miss("tree.shape", "lookup(%d) returns node with index %d", i, nd.Index)
		}
		if nd.Parent != nd.ParentQ {
			c.miss("tree.shape", "node %d: parent via node %d != parent via ParentOf %d", i, nd.Parent, nd.ParentQ)
		}
		if nd.Parent >= int64(i) {
			c.miss("tree.shape", "node %d: parent index %d not smaller", i, nd.Parent)
		}
		if nd.Parent >= 0 && int(nd.Parent) < n {
			found := 0
			for _, ch := range d.Nodes[nd.Parent].Children {
				if int(ch) == i {
					found++
				}
			}
			if found != 1 {
				c.miss("tree.shape", "node %d listed %d times among the children of its parent %d", i, found, nd.Parent)
			}
		}
		for k, ch := range nd.Children {
			if k > 0 && nd.Children[k-1] >= ch {
				c.miss("tree.shape", "node %d: children not increasing %v", i, nd.Children)
			}
			if int(ch) >= n || d.Nodes[ch].Parent != int64(i) {
				c.miss("tree.shape", "node %d: child %d does not name it as parent", i, ch)
			}
		}
		if fmt.Sprint(nd.Children) != fmt.Sprint(nd.ChildIdx) {
			c.miss("tree.shape", "node %d: ChildrenOf %v != ChildrenIndices %v", i, nd.Children, nd.ChildIdx)
		}
	}
	// against the model
	if len(d.Nodes) != len(x.Nodes) {
		c.miss("tree.shape", "tree has %d nodes, model %d", len(d.Nodes), len(x.Nodes))
		return
	}
	for i, nd := range d.Nodes {
		m := x.Nodes[i]
		if int(nd.Parent) != m.Parent {
			c.miss("tree.shape", "node %d: parent %d, model %d", i, nd.Parent, m.Parent)
		}
		ch := make([]int, len(nd.Children))
		for k, v := range nd.Children {
			ch[k] = int(v)
		}
		if fmt.Sprint(ch) != fmt.Sprint(m.Children) && !(len(ch) == 0 && len(m.Children) == 0) {
			c.miss("tree.shape", "node %d: children %v, model %v", i, ch, m.Children)
		}
		if got := c.nameHex(nd.From); got != m.From {
			c.miss("tree.content", "node %d: from %s, model %s", i, got, m.From)
		}
		if got := c.nameHex(nd.To); got != m.To {
			c.miss("tree.content", "node %d: to %s, model %s", i, got, m.To)
		}
		if nd.Value != c.w.wei(m.Value).String() {
			c.miss("tree.content", "node %d: value %s, model %d (x %v wei)", i, nd.Value, m.Value, c.w.unit)
		}
		if want := hex.EncodeToString(c.dataOf(m)); nd.Data != want {
			c.miss("tree.data", "node %d: recorded input %s, as made %s", i, nd.Data, want)
		}
		wantRet := retBytes(m.Ret)
		if m.Ret == "in" {
			wantRet = c.dataOf(m)
		}
		if m.DInit != "" && m.Err == "" {
			wantRet = StubRuntime
		}
		if nd.Ret != evmx.Hx(wantRet) {
			c.miss("tree.content", "node %d: ret %s, model %x", i, nd.Ret, wantRet)
		}
		gotErr := ""
		if nd.Err != "" {
			gotErr = errClassText(nd.Err)
		}
		wantErr := m.Err
		if wantErr == "revert" || wantErr == "jprev" {
			wantErr = "revert|jprev"
		}
		if gotErr != wantErr && !(wantErr == "jrn" && strings.HasPrefix(gotErr, "other:")) {
			c.miss("tree.content", "node %d: err %q (%s), model %q", i, gotErr, nd.Err, m.Err)
		}
	}
}

func errClassText(msg string) string {
	switch {
	case msg == vm.ErrExecutionReverted.Error():
		// both vm.ErrExecutionReverted and a join point's "execution reverted" print the same
		return "revert|jprev"
	case msg == vm.ErrOutOfGas.Error():
		return "oog"
	case msg == vm.ErrWriteProtection.Error():
		return "wp"
	case msg == vm.ErrInsufficientBalance.Error():
		return "funds"
	case msg == vm.ErrDepth.Error():
		return "depth"
	case msg == vm.ErrContractAddressCollision.Error():
		return "collision"
	case msg == vm.ErrMaxCodeSizeExceeded.Error():
		return "codesize"
	case msg == vm.ErrCodeStoreOutOfGas.Error():
		return "codestore"
	case strings.HasPrefix(msg, "invalid opcode"):
		return "invalid"
	case msg == "jp-boom":
		return "jperr"
	case msg == "storage key node not found" || msg == "unknown account":
		return "jrn"
	case strings.Contains(msg, "required field"):
		return "jperr"
	}
	return "other:" + msg
}

func (c *comparer) fired() {
	x := c.s.Expect.Fired
	got := c.env.Host.Firings
	var gs, xs []string
	for _, f := range got {
		gs = append(gs, c.nameHex(f.Contract)+"/"+f.Point)
	}
	for _, f := range x {
		xs = append(xs, f.Contract+"/"+f.Point)
	}
	if strings.Join(gs, " ") != strings.Join(xs, " ") {
		c.miss("jp.seq", "join point firings [%s], model [%s]", strings.Join(gs, " "), strings.Join(xs, " "))
		return
	}
	// payloads of the firings that reached a bound Aspect
	var aenters, aexits []evmx.Event
	for _, e := range c.env.Rec.Events {
		if e.Ev == "AEnter" {
			aenters = append(aenters, e)
		}
		if e.Ev == "AExit" {
			aexits = append(aexits, e)
		}
	}
	// the bound Aspects are benign: a join point may fail only where the scenario injects a failure
	for i, e := range aexits {
		if e.Err != "" {
			c.miss("jp.payload", "Aspect execution %d (%s join point) failed although nothing makes it fail: %s", i, e.Point, e.Err)
		}
	}
	if len(aexits) != len(aenters) {
		c.miss("jp.payload", "%d Aspect executions entered, %d finished", len(aenters), len(aexits))
	}
	k := 0
	for i, f := range x {
		if !f.Bound {
			continue
		}
		// a firing with an injected provider failure never reaches the Aspect
		if c.s.FailPos == i+1 {
			continue
		}
		if k >= len(aenters) {
			c.miss("jp.payload", "firing %d (%s/%s) did not reach its bound Aspect", i, f.Contract, f.Point)
			continue
		}
		e := aenters[k]
		k++
		fr := c.s.Frames[f.Frame-1]
		if !e.HasMsg {
			c.miss("jp.payload", "firing %d: no call message", i)
			continue
		}
		if e.Point != f.Point {
			c.miss("jp.payload", "firing %d: point %s, model %s", i, e.Point, f.Point)
		}
		if g := c.nameHex(e.MFrom); g != f.From {
			c.miss("jp.payload", "firing %d: from %s, model %s", i, g, f.From)
		}
		if g := c.nameHex(e.MTo); g != f.Contract {
			c.miss("jp.payload", "firing %d: to %s, model %s", i, g, f.Contract)
		}
		if e.MData != hex.EncodeToString(Calldata(fr.ID, fr.Alen)) {
			c.miss("jp.payload", "firing %d: data %s, model %x", i, e.MData, Calldata(fr.ID, fr.Alen))
		}
		if e.MValue != c.w.wei(f.Value).String() {
			c.miss("jp.payload", "firing %d: value %s, model %d (x %v wei)", i, e.MValue, f.Value, c.w.unit)
		}
		if int(e.MIndex) != f.Index-1 {
			c.miss("jp.payload", "firing %d: call index %d, model %d", i, e.MIndex, f.Index-1)
		}
		if e.MGas != e.Gas {
			c.miss("jp.payload", "firing %d: message gas %d != gas handed to the Aspect %d", i, e.MGas, e.Gas)
		}
		if f.Point == "post" {
			if e.MRet != evmx.Hx(retBytes(f.Ret)) {
				c.miss("jp.payload", "firing %d: ret %s, model %q", i, e.MRet, f.Ret)
			}
			ge := ""
			if e.MErr != "" {
				ge = errClassText(e.MErr)
			}
			we := f.Err
			if we == "revert" || we == "jprev" {
				we = "revert|jprev"
			}
			if ge != we && !(we == "jrn" && strings.HasPrefix(ge, "other:")) {
				c.miss("jp.payload", "firing %d: error %q (%s), model %q", i, ge, e.MErr, f.Err)
			}
		}
	}
	if k != len(aenters) {
		c.miss("jp.payload", "%d Aspect executions, model expects %d", len(aenters), k)
	}
}

// flags compares, frame by frame, the success flags the real callers observed
// with the model's (C04: "the caller observes failure").
func (c *comparer) flags() {
	ord := 0
	for _, e := range c.s.Expect.Ev {
		if e.E != "enter" {
			continue
		}
		ord++
		if e.Fid == 0 {
			continue
		}
		f := c.s.Frames[e.Fid-1]
		if !f.Done {
			continue
		}
		if fmt.Sprint(c.obs.flags[ord]) != fmt.Sprint(f.Flags) && !(len(c.obs.flags[ord]) == 0 && len(f.Flags) == 0) {
			c.miss("flags", "frame %d (%s at %s): callers saw success flags %v, model %v", f.ID, f.Kind, f.Self, c.obs.flags[ord], f.Flags)
		}
	}
}

func (c *comparer) events() bool {
	var gs, xs []string
	for _, e := range c.env.Rec.Events {
		switch e.Ev {
		case "Enter":
			gs = append(gs, fmt.Sprintf("enter(%s,%s,%s,top=%v)", e.Kind, c.nameHex(e.From), c.nameHex(e.To), e.Top))
		case "Exit":
			gs = append(gs, fmt.Sprintf("exit(top=%v,ok=%v)", e.Top, e.Err == ""))
		}
	}
	for _, e := range c.s.Expect.Ev {
		if e.E == "enter" {
			xs = append(xs, fmt.Sprintf("enter(%s,%s,%s,top=%v)", e.Kind, e.From, e.To, e.Top))
		} else {
			xs = append(xs, fmt.Sprintf("exit(top=%v,ok=%v)", e.Top, e.Ok))
		}
	}
	// balance is checked on the real stream on its own (C18), independent of the model
	depth := 0
	for _, g := range gs {
		if strings.HasPrefix(g, "enter") {
			depth++
		} else {
			depth--
			if depth < 0 {
				c.miss("ev.balance", "exit without enter in debug-tracer stream")
				break
			}
		}
	}
	if depth != 0 {
		c.miss("ev.balance", "debug-tracer enter/exit not balanced: %d left open", depth)
	}
	if strings.Join(gs, " ") != strings.Join(xs, " ") {
		c.miss("ev.seq", "callbacks [%s], model [%s]", strings.Join(gs, " "), strings.Join(xs, " "))
		// the success flags seen by callers can still be lined up when the streams differ in outcomes only
		if len(gs) != len(xs) {
			return false
		}
		for i := range gs {
			if gs[i] != xs[i] && !(strings.HasPrefix(gs[i], "exit(") && strings.HasPrefix(xs[i], "exit(")) {
				return false
			}
		}
	}
	return true
}

func bytesToInt(h string) int {
	b, _ := hex.DecodeString(h)
	return int(new(big.Int).SetBytes(b).Int64())
}

func renderJ(m map[int][]int) string {
	ks := make([]int, 0, len(m))
	for k := range m {
		ks = append(ks, k)
	}
	sort.Ints(ks)
	var sb strings.Builder
	for _, k := range ks {
		fmt.Fprintf(&sb, "%d:%v ", k, m[k])
	}
	return sb.String()
}

func (c *comparer) journals() {
	sc := c.env.EVM.Tracer().StateChanges()
	// balance journal
	want := map[string]map[int][]int{}
	for _, j := range c.s.Expect.BalJ {
		if want[j.Acct] == nil {
			want[j.Acct] = map[int][]int{}
		}
		want[j.Acct][j.Idx] = j.Vals
	}
	for _, n := range c.allNames() {
		got := map[int][]int{}
		for idx, l := range evmx.DumpChanges(sc.Balance(c.w.addr(n))) {
			for _, v := range l {
				// journaled balances are multiples of the wei unit; anything else is rendered as -1 (cannot match the model)
				b, _ := hex.DecodeString(v)
				q, r := new(big.Int).QuoRem(new(big.Int).SetBytes(b), c.w.unit, new(big.Int))
				if r.Sign() != 0 || !q.IsInt64() {
					got[int(idx)] = append(got[int(idx)], -1)
				} else {
					got[int(idx)] = append(got[int(idx)], int(q.Int64()))
				}
			}
		}
		w := want[n]
		if w == nil {
			w = map[int][]int{}
		}
		if renderJ(got) != renderJ(w) {
			c.miss("jrn.bal", "balance journal of %s is {%s}, model {%s}", n, renderJ(got), renderJ(w))
		}
	}
	// change journal
	wantC := map[string]map[int][]int{}
	for _, j := range c.s.Expect.Chg {
		k := fmt.Sprintf("%s/%d", j.Acct, j.Slot)
		if wantC[k] == nil {
			wantC[k] = map[int][]int{}
		}
		wantC[k][j.Idx] = j.Vals
	}
	for _, n := range c.allNames() {
		for s := 0; s < 2; s++ {
			ch, err := sc.Slot(c.w.addr(n), uint256.NewInt(uint64(s)), uint256.NewInt(0), TypeID)
			if err != nil {
				c.miss("jrn.chg", "Slot query failed: %v", err)
				continue
			}
			got := map[int][]int{}
			for idx, l := range evmx.DumpChanges(ch) {
				for _, v := range l {
					got[int(idx)] = append(got[int(idx)], bytesToInt(v))
				}
			}
			// the by-name view must agree with the by-slot view
			byName := map[int][]int{}
			for idx, l := range evmx.DumpChanges(sc.Variable(c.w.addr(n), fmt.Sprintf("k%d", s))) {
				for _, v := range l {
					byName[int(idx)] = append(byName[int(idx)], bytesToInt(v))
				}
			}
			w := wantC[fmt.Sprintf("%s/%d", n, s)]
			if w == nil {
				w = map[int][]int{}
			}
			if renderJ(got) != renderJ(w) {
				c.miss("jrn.chg", "change journal of %s slot %d is {%s}, model {%s}", n, s, renderJ(got), renderJ(w))
			}
			if renderJ(byName) != renderJ(got) {
				c.miss("jrn.chg", "change journal of %s slot %d by name {%s} != by slot {%s}", n, s, renderJ(byName), renderJ(got))
			}
		}
	}
}

func (c *comparer) writes() {
	var got []string
	for _, h := range c.env.Host.Calls {
		if h.Kind == "write" {
			got = append(got, c.nameHex(h.Addr))
		}
	}
	if strings.Join(got, ",") != strings.Join(c.s.Expect.Writes, ",") {
		c.miss("ctx.write", "context writes attributed to %v, model %v", got, c.s.Expect.Writes)
	}
}
