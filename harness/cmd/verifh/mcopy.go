package main

// verifh mcopy: executes the vectors enumerated by spec/MCopyScn.tla on the real MCOPY / TLOAD / TSTORE (C15).

import (
	"bufio"
	"bytes"
	"encoding/json"
	"flag"
	"fmt"
	"math/big"
	"os"
	"runtime"
	"strings"
	"sync"

	"github.com/artela-network/artela-evm/vm"
	"verif/harness/evmx"
)

type mcVec struct {
	K     string `json:"k"`
	M     int    `json:"m"`
	Dst   int    `json:"dst"`
	Src   int    `json:"src"`
	Len   int    `json:"len"`
	Fork  string `json:"fork"`
	Op    string `json:"op"`
	Slotc int    `json:"slotc"`
	Valc  int    `json:"valc"`
	Warm  bool   `json:"warm"`
	Slack int    `json:"slack"`
}
type mcExp struct {
	Err   bool  `json:"err"`
	Mem   []int `json:"mem"`
	Gas   int   `json:"gas"`
	Valid bool  `json:"valid"`
	Fee   int   `json:"fee"`
}
type mcLine struct {
	V mcVec `json:"v"`
	E mcExp `json:"e"`
}

func mcRunCode(fork string, code []byte) (*evmx.Env, evmx.Result) {
	e := evmx.NewEnv(evmx.EnvOpts{Fork: fork, Tracer: true, Steps: true})
	e.State.SetCode(jcAcct, code)
	e.State.SetNonce(jcAcct, 1)
	to := jcAcct
	e.Prepare(&to)
	e.EVM.IsExecuteJP = false
	return e, e.Call(e.Origin, jcAcct, nil, 3_000_000, big.NewInt(0))
}

func stepsOf(e *evmx.Env, op vm.OpCode) []evmx.Event {
	var out []evmx.Event
	for _, ev := range e.Rec.Events {
		if ev.Ev == "Step" && ev.Op == int(op) {
			out = append(out, ev)
		}
	}
	return out
}

func mcRun(l *mcLine) (out []jcMismatch) {
	miss := func(comp, f string, a ...interface{}) {
		out = append(out, jcMismatch{Comp: comp, Detail: fmt.Sprintf(f, a...)})
	}
	v, x := l.V, l.E
	switch v.K {
	case "copy", "big":
		img := make([]byte, v.M)
		for i := range img {
			img[i] = byte(1 + (7*i)%250)
		}
		a := evmx.NewAsm()
		a.MStoreBytes(0, img)
		a.PushBig(opnd(v.Len)).PushBig(opnd(v.Src)).PushBig(opnd(v.Dst)).Op(vm.MCOPY)
		a.Op(vm.MSIZE).Push(0).Op(vm.RETURN)
		e, res := mcRunCode("Cancun", a.Bytes())
		desc := fmt.Sprintf("MCOPY(dst=%v, src=%v, len=%v) on %d bytes of memory", opnd(v.Dst), opnd(v.Src), opnd(v.Len), v.M)
		if res.Panic != "" {
			miss("mc.panic", "%s panicked: %s", desc, res.Panic)
			return
		}
		if x.Err {
			if res.Err == nil {
				miss("mc.copy", "%s cannot be paid for but succeeded", desc)
			}
			return
		}
		if res.Err != nil {
			miss("mc.copy", "%s failed: %v", desc, res.Err)
			return
		}
		want := toBytes(x.Mem)
		if !bytes.Equal(res.Ret, want) {
			miss("mc.copy", "%s: memory afterwards (%d bytes) %x, memmove + expansion give (%d bytes) %x", desc, len(res.Ret), res.Ret, len(want), want)
		}
		st := stepsOf(e, vm.MCOPY)
		if len(st) != 1 {
			miss("mc.setup", "%s: %d MCOPY steps recorded", desc, len(st))
		} else if int(st[0].Cost) != x.Gas {
			miss("mc.gas", "%s charged %d gas, EIP-5656 says %d", desc, st[0].Cost, x.Gas)
		}
	case "fork":
		a := evmx.NewAsm().Push(0).Push(0).Push(0)
		var op vm.OpCode
		switch v.Op {
		case "TLOAD":
			op = vm.TLOAD
		case "TSTORE":
			op = vm.TSTORE
		default:
			op = vm.MCOPY
		}
		a.Op(op, vm.STOP)
		_, res := mcRunCode(v.Fork, a.Bytes())
		desc := fmt.Sprintf("%s on %s", v.Op, v.Fork)
		if res.Panic != "" {
			miss("mc.panic", "%s panicked: %s", desc, res.Panic)
			return
		}
		invalid := res.Err != nil && strings.HasPrefix(res.Err.Error(), "invalid opcode")
		if x.Valid && res.Err != nil {
			miss("mc.fork", "%s must be a valid instruction but failed: %v", desc, res.Err)
		}
		if !x.Valid && !invalid {
			miss("mc.fork", "%s must be an invalid instruction before Cancun, got %v", desc, res.Err)
		}
	case "tgas":
		a := evmx.NewAsm()
		switch v.Op {
		case "TSTORE":
			a.Push(7).Push(1).Op(vm.TSTORE, vm.STOP)
		case "TLOAD":
			a.Push(1).Op(vm.TLOAD, vm.POP, vm.STOP)
		case "MCOPY":
			a.Push(32).Push(0).Push(0).Op(vm.MCOPY, vm.STOP)
		}
		e := evmx.NewEnv(evmx.EnvOpts{Fork: "Cancun"})
		e.State.SetCode(jcAcct, a.Bytes())
		e.State.SetNonce(jcAcct, 1)
		to := jcAcct
		e.Prepare(&to)
		e.EVM.IsExecuteJP = false
		limit := uint64(x.Gas + v.Slack)
		res := e.Call(e.Origin, jcAcct, nil, limit, big.NewInt(0))
		desc := fmt.Sprintf("a frame given %d gas for a %s program that costs %d", limit, v.Op, x.Gas)
		if res.Panic != "" || res.Err != nil {
			miss("mc.gas", "%s failed: %v %s", desc, res.Err, res.Panic)
		} else if limit-res.Left != uint64(x.Gas) {
			miss("mc.gas", "%s used %d", desc, limit-res.Left)
		}
	case "tfee":
		a := evmx.NewAsm()
		if v.Warm {
			a.Push(7).PushBig(opnd(v.Slotc)).Op(vm.TSTORE)
			a.PushBig(opnd(v.Slotc)).Op(vm.TLOAD, vm.POP)
		}
		a.PushBig(opnd(v.Valc)).PushBig(opnd(v.Slotc)).Op(vm.TSTORE)
		a.PushBig(opnd(v.Slotc)).Op(vm.TLOAD)
		a.Push(0).Op(vm.MSTORE).Push(32).Push(0).Op(vm.RETURN)
		e, res := mcRunCode("Cancun", a.Bytes())
		desc := fmt.Sprintf("TSTORE/TLOAD slot %v value %v (touched before: %v)", opnd(v.Slotc), opnd(v.Valc), v.Warm)
		if res.Panic != "" || res.Err != nil {
			miss("mc.tstore", "%s failed: %v %s", desc, res.Err, res.Panic)
			return
		}
		if new(big.Int).SetBytes(res.Ret).Cmp(opnd(v.Valc)) != 0 {
			miss("mc.tstore", "%s: TLOAD returned %x", desc, res.Ret)
		}
		for _, s := range append(stepsOf(e, vm.TSTORE), stepsOf(e, vm.TLOAD)...) {
			if int(s.Cost) != x.Fee {
				miss("mc.gas", "%s: %s charged %d gas, EIP-1153 fixes %d", desc, vm.OpCode(s.Op), s.Cost, x.Fee)
			}
		}
	}
	return
}

func mcopyCmd(args []string) int {
	fs := flag.NewFlagSet("mcopy", flag.ExitOnError)
	out := fs.String("out", "", "report file")
	one := fs.String("one", "", "replay one vector")
	maxSamples := fs.Int("samples", 4, "samples per component")
	_ = fs.Parse(args)
	if *one != "" {
		raw, err := os.ReadFile(*one)
		if err != nil {
			fmt.Fprintln(os.Stderr, err)
			return 2
		}
		var wrap struct {
			Replay *struct {
				Vector json.RawMessage `json:"vector"`
			} `json:"replay"`
		}
		if json.Unmarshal(raw, &wrap) == nil && wrap.Replay != nil && wrap.Replay.Vector != nil {
			raw = wrap.Replay.Vector
		}
		l := &mcLine{}
		if err := json.Unmarshal(raw, l); err != nil {
			fmt.Fprintln(os.Stderr, err)
			return 2
		}
		ms := mcRun(l)
		for _, m := range ms {
			fmt.Printf("MISMATCH %s: %s\n", m.Comp, m.Detail)
		}
		if len(ms) > 0 {
			return 1
		}
		fmt.Println("conforms")
		return 0
	}
	rep := &jcReport{ByComp: map[string]int{}, Samples: map[string][]jcMismatch{}, ByKind: map[string]int{}}
	var mu sync.Mutex
	lines := make(chan string, 1024)
	var wg sync.WaitGroup
	for i := 0; i < runtime.NumCPU(); i++ {
		wg.Add(1)
		go func() {
			defer wg.Done()
			for t := range lines {
				body := t[4 : len(t)-1]
				body = strings.ReplaceAll(body, `\"`, `"`)
				body = strings.ReplaceAll(body, `\\`, `\`)
				l := &mcLine{}
				if err := json.Unmarshal([]byte(body), l); err != nil {
					mu.Lock()
					rep.ParseErr++
					mu.Unlock()
					continue
				}
				ms := mcRun(l)
				mu.Lock()
				rep.Vectors++
				rep.ByKind[l.V.K]++
				if l.V.Len > 0 {
					rep.Nontrivial++
				}
				seen := map[string]bool{}
				for _, m := range ms {
					if !seen[m.Comp] {
						seen[m.Comp] = true
						rep.ByComp[m.Comp]++
						if len(rep.Samples[m.Comp]) < *maxSamples {
							m.Vector = json.RawMessage(body)
							rep.Samples[m.Comp] = append(rep.Samples[m.Comp], m)
						}
					}
				}
				if len(rep.Example) < 2 && l.V.K == "copy" && l.V.Dst == 5 && l.V.Src == 3 && l.V.Len == 9 {
					rep.Example = append(rep.Example, json.RawMessage(body))
				}
				mu.Unlock()
			}
		}()
	}
	sc := bufio.NewScanner(os.Stdin)
	sc.Buffer(make([]byte, 1<<20), 64<<20)
	for sc.Scan() {
		t := sc.Text()
		if strings.HasPrefix(t, `"MC `) {
			lines <- t
		} else {
			fmt.Println(t)
		}
	}
	close(lines)
	wg.Wait()
	fmt.Printf("MC-DONE vectors=%d mismatching-components=%d\n", rep.Vectors, len(rep.ByComp))
	if *out != "" {
		raw, _ := json.MarshalIndent(rep, "", " ")
		if err := os.WriteFile(*out, raw, 0o644); err != nil {
			fmt.Fprintln(os.Stderr, err)
			return 2
		}
	}
	return 0
}
