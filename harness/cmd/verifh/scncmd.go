package main

import (
	"bufio"
	"crypto/sha256"
	"encoding/hex"
	"encoding/json"
	"flag"
	"fmt"
	"os"
	"runtime"
	"sort"
	"strings"
	"sync"

	"verif/harness/scn"
)

// scnReport is what `verifh scn` writes for the orchestrator.
type scnReport struct {
	Scenarios   int                       `json:"scenarios"`
	Runs        int                       `json:"runs"`
	Distinct    int                       `json:"distinct"`
	Nontrivial  int                       `json:"nontrivial"`
	Steps       int                       `json:"steps"`
	Firings     int                       `json:"firings"`
	ByComp      map[string]int            `json:"byComp"`
	Samples     map[string][]scnMismatch  `json:"samples"`
	Forks       []string                  `json:"forks"`
	ParseErrors int                       `json:"parseErrors"`
	Example     []json.RawMessage         `json:"example"`
	OpsSeen     map[string]int            `json:"opsSeen"`
}

type scnMismatch struct {
	Fork     string          `json:"fork"`
	Comp     string          `json:"comp"`
	Detail   string          `json:"detail"`
	Scenario json.RawMessage `json:"scenario"`
}

func scnCmd(args []string) int {
	fs := flag.NewFlagSet("scn", flag.ExitOnError)
	forks := fs.String("forks", "London", "comma separated forks to replay on")
	out := fs.String("out", "", "report file (json)")
	maxSamples := fs.Int("samples", 5, "mismatch samples kept per component")
	one := fs.String("one", "", "replay a single scenario json file and print mismatches")
	every := fs.Int("every", 1, "replay only every n-th scenario (sampling)")
	_ = fs.Parse(args)
	fl := strings.Split(*forks, ",")

	if *one != "" {
		raw, err := os.ReadFile(*one)
		if err != nil {
			fmt.Fprintln(os.Stderr, err)
			return 2
		}
		var rec struct {
			Fork     string          `json:"fork"`
			Scenario json.RawMessage `json:"scenario"`
		}
		if err := json.Unmarshal(raw, &rec); err != nil || rec.Scenario == nil {
			rec.Scenario = raw
			rec.Fork = fl[0]
		}
		s := &scn.Scenario{}
		if err := json.Unmarshal(rec.Scenario, s); err != nil {
			fmt.Fprintln(os.Stderr, err)
			return 2
		}
		o := scn.Run(s, rec.Fork)
		for _, m := range o.Mismatches {
			fmt.Printf("MISMATCH %s: %s\n", m.Comp, m.Detail)
		}
		if len(o.Mismatches) > 0 {
			return 1
		}
		fmt.Println("conforms")
		return 0
	}

	rep := &scnReport{ByComp: map[string]int{}, Samples: map[string][]scnMismatch{}, Forks: fl, OpsSeen: map[string]int{}}
	var mu sync.Mutex
	seen := map[[32]byte]bool{}
	lines := make(chan string, 1024)
	var wg sync.WaitGroup
	nw := runtime.NumCPU()
	for i := 0; i < nw; i++ {
		wg.Add(1)
		go func() {
			defer wg.Done()
			for line := range lines {
				s, err := scn.ParseLine(line)
				if err != nil {
					mu.Lock()
					rep.ParseErrors++
					mu.Unlock()
					continue
				}
				if s == nil {
					continue
				}
				body, _ := json.Marshal(struct {
					T []scn.TopReq
					F []scn.FrameDesc
					P int
					K string
					B []string
				}{s.Tops, s.Frames, s.FailPos, s.FailKind, s.Bound})
				h := sha256.Sum256(body)
				nontrivial := len(s.Frames) > 1 || s.FailPos > 0
				for _, fork := range fl {
					o := scn.Run(s, fork)
					mu.Lock()
					rep.Runs++
					rep.Steps += o.Steps
					rep.Firings += o.Firings
					for _, m := range o.Mismatches {
						rep.ByComp[m.Comp]++
						if len(rep.Samples[m.Comp]) < *maxSamples {
							raw, _ := json.Marshal(s)
							rep.Samples[m.Comp] = append(rep.Samples[m.Comp], scnMismatch{Fork: fork, Comp: m.Comp, Detail: m.Detail, Scenario: raw})
						}
					}
					mu.Unlock()
				}
				mu.Lock()
				rep.Scenarios++
				if !seen[h] {
					seen[h] = true
					rep.Distinct++
					if nontrivial {
						rep.Nontrivial++
					}
				}
				for _, f := range s.Frames {
					for _, in := range f.Prog {
						k := in.Op
						if in.Kind != "" {
							k += ":" + in.Kind
						}
						rep.OpsSeen[k]++
					}
				}
				if len(rep.Example) < 2 && len(s.Frames) > 1 {
					raw, _ := json.Marshal(s)
					rep.Example = append(rep.Example, raw)
				}
				mu.Unlock()
			}
		}()
	}
	sc := bufio.NewScanner(os.Stdin)
	sc.Buffer(make([]byte, 1<<20), 64<<20)
	n := 0
	for sc.Scan() {
		t := sc.Text()
		if strings.HasPrefix(t, `"SCN `) {
			n++
			if *every > 1 && n%*every != 0 {
				continue
			}
			lines <- t
		} else {
			// pass TLC's own output through (the orchestrator parses the statistics)
			fmt.Println(t)
		}
	}
	close(lines)
	wg.Wait()
	comps := make([]string, 0, len(rep.ByComp))
	for c := range rep.ByComp {
		comps = append(comps, c)
	}
	sort.Strings(comps)
	for _, c := range comps {
		fmt.Printf("SCN-MISMATCH comp=%s count=%d\n", c, rep.ByComp[c])
	}
	fmt.Printf("SCN-DONE scenarios=%d runs=%d distinct=%d mismatching-components=%d\n", rep.Scenarios, rep.Runs, rep.Distinct, len(rep.ByComp))
	if *out != "" {
		raw, _ := json.MarshalIndent(rep, "", " ")
		if err := os.WriteFile(*out, raw, 0o644); err != nil {
			fmt.Fprintln(os.Stderr, err)
			return 2
		}
	}
	_ = hex.EncodeToString
	return 0
}
