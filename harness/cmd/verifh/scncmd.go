package main

import (
	"bufio"
	"crypto/sha256"
	"encoding/hex"
	"encoding/json"
	"flag"
	"fmt"
	"io"
	"os"
	"os/exec"
	"runtime"
	"sort"
	"strings"
	"sync"

	"verif/harness/scn"
)

// scnReport is what `verifh scn` writes for the orchestrator.
type scnReport struct {
	Scenarios   int                      `json:"scenarios"`
	Runs        int                      `json:"runs"`
	Distinct    int                      `json:"distinct"`
	Nontrivial  int                      `json:"nontrivial"`
	Steps       int                      `json:"steps"`
	Firings     int                      `json:"firings"`
	ByComp      map[string]int           `json:"byComp"`
	Samples     map[string][]scnMismatch `json:"samples"`
	Forks       []string                 `json:"forks"`
	ParseErrors int                      `json:"parseErrors"`
	Example     []json.RawMessage        `json:"example"`
	OpsSeen     map[string]int           `json:"opsSeen"`
}

type scnMismatch struct {
	Fork     string          `json:"fork"`
	Comp     string          `json:"comp"`
	Detail   string          `json:"detail"`
	Scenario json.RawMessage `json:"scenario"`
}

func scnCmd(args []string) int {
	fs := flag.NewFlagSet("scn", flag.ExitOnError)
	forks := fs.String("forks", "London", "comma separated forks to replay on")
	out := fs.String("out", "", "report file (json)")
	maxSamples := fs.Int("samples", 5, "mismatch samples kept per component")
	one := fs.String("one", "", "replay a single scenario json file and print mismatches")
	every := fs.Int("every", 1, "replay only every n-th scenario (sampling)")
	workers := fs.Int("workers", 0, "parallel replay workers (0 = number of CPUs)")
	procs := fs.Int("procs", 0, "fan scenarios out to this many single-threaded child processes (WASM instantiation does not scale across threads of one process)")
	_ = fs.Parse(args)
	fl := strings.Split(*forks, ",")

	if *one != "" {
		raw, err := os.ReadFile(*one)
		if err != nil {
			fmt.Fprintln(os.Stderr, err)
			return 2
		}
		var rec struct {
			Fork     string          `json:"fork"`
			Scenario json.RawMessage `json:"scenario"`
			Replay   *struct {
				Fork     string          `json:"fork"`
				Scenario json.RawMessage `json:"scenario"`
			} `json:"replay"`
		}
		err = json.Unmarshal(raw, &rec)
		if err == nil && rec.Replay != nil {
			rec.Fork, rec.Scenario = rec.Replay.Fork, rec.Replay.Scenario
		}
		if err != nil || rec.Scenario == nil {
			rec.Scenario = raw
			rec.Fork = fl[0]
		}
		s := &scn.Scenario{}
		if err := json.Unmarshal(rec.Scenario, s); err != nil {
			fmt.Fprintln(os.Stderr, err)
			return 2
		}
		o := scn.Run(s, rec.Fork)
		for _, m := range o.Mismatches {
			fmt.Printf("MISMATCH %s: %s\n", m.Comp, m.Detail)
		}
		if len(o.Mismatches) > 0 {
			return 1
		}
		fmt.Println("conforms")
		return 0
	}

	if *procs > 1 {
		return scnFanOut(*procs, *forks, *out, *maxSamples, *every)
	}
	rep := &scnReport{ByComp: map[string]int{}, Samples: map[string][]scnMismatch{}, Forks: fl, OpsSeen: map[string]int{}}
	var mu sync.Mutex
	seen := map[[32]byte]bool{}
	lines := make(chan string, 1024)
	var wg sync.WaitGroup
	nw := runtime.NumCPU()
	if *workers > 0 {
		nw = *workers
	}
	for i := 0; i < nw; i++ {
		wg.Add(1)
		go func() {
			defer wg.Done()
			for line := range lines {
				s, err := scn.ParseLine(line)
				if err != nil {
					mu.Lock()
					rep.ParseErrors++
					mu.Unlock()
					continue
				}
				if s == nil {
					continue
				}
				body, _ := json.Marshal(struct {
					T []scn.TopReq
					F []scn.FrameDesc
					P int
					K string
					B []string
				}{s.Tops, s.Frames, s.FailPos, s.FailKind, s.Bound})
				h := sha256.Sum256(body)
				nontrivial := len(s.Frames) > 1 || s.FailPos > 0
				for _, fork := range fl {
					o := scn.Run(s, fork)
					mu.Lock()
					rep.Runs++
					rep.Steps += o.Steps
					rep.Firings += o.Firings
					for _, m := range o.Mismatches {
						rep.ByComp[m.Comp]++
						if len(rep.Samples[m.Comp]) < *maxSamples {
							raw, _ := json.Marshal(s)
							rep.Samples[m.Comp] = append(rep.Samples[m.Comp], scnMismatch{Fork: fork, Comp: m.Comp, Detail: m.Detail, Scenario: raw})
						}
					}
					mu.Unlock()
				}
				mu.Lock()
				rep.Scenarios++
				if !seen[h] {
					seen[h] = true
					rep.Distinct++
					if nontrivial {
						rep.Nontrivial++
					}
				}
				for _, f := range s.Frames {
					for _, in := range f.Prog {
						k := in.Op
						if in.Kind != "" {
							k += ":" + in.Kind
						}
						rep.OpsSeen[k]++
					}
				}
				if len(rep.Example) < 2 && len(s.Frames) > 1 {
					raw, _ := json.Marshal(s)
					rep.Example = append(rep.Example, raw)
				}
				mu.Unlock()
			}
		}()
	}
	sc := bufio.NewScanner(os.Stdin)
	sc.Buffer(make([]byte, 1<<20), 64<<20)
	n := 0
	for sc.Scan() {
		t := sc.Text()
		if strings.HasPrefix(t, `"SCN `) {
			n++
			if *every > 1 && n%*every != 0 {
				continue
			}
			lines <- t
		} else {
			// pass TLC's own output through (the orchestrator parses the statistics)
			fmt.Println(t)
		}
	}
	close(lines)
	wg.Wait()
	comps := make([]string, 0, len(rep.ByComp))
	for c := range rep.ByComp {
		comps = append(comps, c)
	}
	sort.Strings(comps)
	for _, c := range comps {
		fmt.Printf("SCN-MISMATCH comp=%s count=%d\n", c, rep.ByComp[c])
	}
	fmt.Printf("SCN-DONE scenarios=%d runs=%d distinct=%d mismatching-components=%d\n", rep.Scenarios, rep.Runs, rep.Distinct, len(rep.ByComp))
	if *out != "" {
		raw, _ := json.MarshalIndent(rep, "", " ")
		if err := os.WriteFile(*out, raw, 0o644); err != nil {
			fmt.Fprintln(os.Stderr, err)
			return 2
		}
	}
	_ = hex.EncodeToString
	return 0
}

// scnFanOut distributes scenario lines over n child processes and merges their reports.
func scnFanOut(n int, forks, out string, maxSamples, every int) int {
	self, err := os.Executable()
	if err != nil {
		fmt.Fprintln(os.Stderr, err)
		return 2
	}
	dir, err := os.MkdirTemp("", "vscn.")
	if err != nil {
		fmt.Fprintln(os.Stderr, err)
		return 2
	}
	defer os.RemoveAll(dir)
	type child struct {
		cmd *exec.Cmd
		in  io.WriteCloser
		w   *bufio.Writer
		rep string
	}
	kids := make([]*child, n)
	for i := range kids {
		rep := fmt.Sprintf("%s/rep%d.json", dir, i)
		c := exec.Command(self, "scn", "-forks", forks, "-workers", "1", "-samples", fmt.Sprint(maxSamples), "-out", rep)
		c.Stderr = os.Stderr
		in, err := c.StdinPipe()
		if err != nil {
			fmt.Fprintln(os.Stderr, err)
			return 2
		}
		if err := c.Start(); err != nil {
			fmt.Fprintln(os.Stderr, err)
			return 2
		}
		kids[i] = &child{cmd: c, in: in, w: bufio.NewWriterSize(in, 1<<20), rep: rep}
	}
	sc := bufio.NewScanner(os.Stdin)
	sc.Buffer(make([]byte, 1<<20), 64<<20)
	k := 0
	for sc.Scan() {
		t := sc.Text()
		if strings.HasPrefix(t, `"SCN `) {
			k++
			if every > 1 && k%every != 0 {
				continue
			}
			c := kids[k%n]
			c.w.WriteString(t)
			c.w.WriteByte('\n')
		} else {
			fmt.Println(t)
		}
	}
	total := &scnReport{ByComp: map[string]int{}, Samples: map[string][]scnMismatch{}, Forks: strings.Split(forks, ","), OpsSeen: map[string]int{}}
	rc := 0
	for _, c := range kids {
		c.w.Flush()
		c.in.Close()
		if err := c.cmd.Wait(); err != nil {
			fmt.Fprintln(os.Stderr, "replay child failed:", err)
			rc = 2
			continue
		}
		raw, err := os.ReadFile(c.rep)
		if err != nil {
			rc = 2
			continue
		}
		var r scnReport
		if err := json.Unmarshal(raw, &r); err != nil {
			rc = 2
			continue
		}
		total.Scenarios += r.Scenarios
		total.Runs += r.Runs
		total.Distinct += r.Distinct
		total.Nontrivial += r.Nontrivial
		total.Steps += r.Steps
		total.Firings += r.Firings
		total.ParseErrors += r.ParseErrors
		for c, n := range r.ByComp {
			total.ByComp[c] += n
		}
		for c, ss := range r.Samples {
			for _, x := range ss {
				if len(total.Samples[c]) < maxSamples {
					total.Samples[c] = append(total.Samples[c], x)
				}
			}
		}
		for o, n := range r.OpsSeen {
			total.OpsSeen[o] += n
		}
		if len(total.Example) < 2 {
			total.Example = append(total.Example, r.Example...)
		}
	}
	if rc != 0 {
		return rc
	}
	comps := make([]string, 0, len(total.ByComp))
	for c := range total.ByComp {
		comps = append(comps, c)
	}
	sort.Strings(comps)
	for _, c := range comps {
		fmt.Printf("SCN-MISMATCH comp=%s count=%d\n", c, total.ByComp[c])
	}
	fmt.Printf("SCN-DONE scenarios=%d runs=%d distinct=%d mismatching-components=%d\n", total.Scenarios, total.Runs, total.Distinct, len(total.ByComp))
	if out != "" {
		raw, _ := json.MarshalIndent(total, "", " ")
		if err := os.WriteFile(out, raw, 0o644); err != nil {
			fmt.Fprintln(os.Stderr, err)
			return 2
		}
	}
	return 0
}
