package main

// verifh fuzz: drives the Artela EVM with generated programs that include the journal opcodes, the Cancun additions and
// calls to the Artela precompiles with arbitrary operands, behind recover(), and writes a trace for spec/FuzzTrace.tla:
// call / result / probe lines per run (C03: no panic, bookkeeping closed) and work lines per instruction (C20).

import (
	"encoding/json"
	"flag"
	"fmt"
	"math/big"
	"os"
	"path/filepath"
	"runtime"
	"strings"
	"sync"

	"github.com/artela-network/artela-evm/vm"
	"github.com/ethereum/go-ethereum/common"
	"github.com/holiman/uint256"
	"verif/harness/evmx"
	"verif/harness/gen"
)

type fzLine struct {
	K      string `json:"k"` // call result probe work
	Run    string `json:"run"`
	Panic  string `json:"panic"`
	Err    string `json:"err"`
	Cursor int    `json:"cursornil"` // 1 = Current() == nil
	Start  int    `json:"start"`     // 1 = a follow-up top-level call was announced by CaptureStart (depth 0)
	Op     int    `json:"op"`
	Cost   int64  `json:"cost"`
	Reads  int    `json:"reads"`
	Writes int    `json:"writes"`
	Grow   int    `json:"grow"` // bytes by which the frame's memory grew during this instruction
	Fwd    int64  `json:"fwd"`  // gas handed to the frame this (call-family) instruction entered: part of its reported cost, not a payment for work
}

// workRec records, per instruction, the state reads/writes performed until the next callback of the same frame.
type workRec struct {
	cs     *evmx.CountingState
	depth  int
	open   []openStep // per depth
	lines  []fzLine
	starts int
	enters int
	run    string
}
type openStep struct {
	valid         bool
	op            int
	cost          int64
	reads, writes int
	nested        bool
	msize         int
	fwd           int64
}

// close ends the instruction open at depth d; msize is the frame's memory size now (-1: unknown, the frame is gone)
func (w *workRec) close(d int, msize int) {
	if d < len(w.open) && w.open[d].valid {
		o := w.open[d]
		grow := 0
		if msize >= 0 && msize > o.msize {
			grow = msize - o.msize
		}
		if !o.nested {
			w.lines = append(w.lines, fzLine{K: "work", Run: w.run, Op: o.op, Cost: o.cost, Reads: w.cs.Reads - o.reads, Writes: w.cs.Writes - o.writes, Grow: grow})
		} else if grow > 0 {
			// an instruction that entered a frame: its state reads are not its own, its memory growth is
			w.lines = append(w.lines, fzLine{K: "work", Run: w.run, Op: o.op, Cost: o.cost, Grow: grow, Fwd: o.fwd})
		}
		w.open[d].valid = false
	}
}
func (w *workRec) CaptureTxStart(uint64) {}
func (w *workRec) CaptureTxEnd(uint64)   {}
func (w *workRec) CaptureStart(env *vm.EVM, from, to common.Address, create bool, input []byte, gas uint64, value *big.Int) {
	w.starts++
}
func (w *workRec) CaptureEnd([]byte, uint64, error) { w.close(1, -1) }
func (w *workRec) CaptureEnter(typ vm.OpCode, from, to common.Address, input []byte, gas uint64, value *big.Int) {
	w.enters++
	for d := range w.open {
		if w.open[d].valid {
			if !w.open[d].nested && d == w.depth && typ != vm.CREATE && typ != vm.CREATE2 {
				w.open[d].fwd = clamp(gas)
			}
			w.open[d].nested = true // the instruction spans a nested frame: its reads are not its own
		}
	}
}
func (w *workRec) CaptureExit([]byte, uint64, error) {}
func (w *workRec) CaptureFault(pc uint64, op vm.OpCode, gas, cost uint64, scope *vm.ScopeContext, depth int, err error) {
	w.close(depth, -1)
}
func (w *workRec) CaptureState(pc uint64, op vm.OpCode, gas, cost uint64, scope *vm.ScopeContext, rData []byte, depth int, err error) {
	for len(w.open) <= depth+1 {
		w.open = append(w.open, openStep{})
	}
	w.close(depth+1, -1)
	w.close(depth, scope.Memory.Len())
	w.depth = depth
	if err != nil || len(w.lines) > 3000 {
		return
	}
	w.open[depth] = openStep{valid: true, op: int(op), cost: clamp(cost), reads: w.cs.Reads, writes: w.cs.Writes, msize: scope.Memory.Len()}
}

func fzRun(p *gen.Program, fork string, jpOn bool, name string) []fzLine {
	st := prepState(p)
	wr := &workRec{run: name}
	e := evmx.NewEnv(evmx.EnvOpts{Fork: fork, State: st, Origin: gen.EO, CustomTracer: wr,
		WrapState: func(s vm.StateDB) vm.StateDB { wr.cs = &evmx.CountingState{StateDB: s}; return wr.cs }})
	e.EVM.IsExecuteJP = jpOn
	rules := e.Rules()
	to := p.To
	var dst *common.Address
	if p.Entry != "create" && p.Entry != "create2" {
		dst = &to
	}
	st.Prepare(rules, gen.EO, evmx.DefaultCoinbase, dst, vm.ActivePrecompiles(rules), nil)
	lines := []fzLine{{K: "call", Run: name}}
	var err error
	panicked := ""
	func() {
		defer func() {
			if r := recover(); r != nil {
				panicked = fmt.Sprint(r)
			}
		}()
		caller := vm.AccountRef(gen.EO)
		switch p.Entry {
		case "call":
			_, _, err = e.EVM.Call(e.Ctx, caller, p.To, p.Input, p.Gas, p.Value)
		case "callcode":
			_, _, err = e.EVM.CallCode(e.Ctx, caller, p.To, p.Input, p.Gas, p.Value)
		case "delegatecall":
			c := vm.NewContract(vm.AccountRef(gen.EO), vm.AccountRef(gen.EO), big.NewInt(0), p.Gas)
			_, _, err = e.EVM.DelegateCall(e.Ctx, c, p.To, p.Input, p.Gas)
		case "staticcall":
			_, _, err = e.EVM.StaticCall(e.Ctx, caller, p.To, p.Input, p.Gas)
		case "create":
			_, _, _, err = e.EVM.Create(e.Ctx, caller, p.Input, p.Gas, p.Value)
		case "create2":
			_, _, _, err = e.EVM.Create2(e.Ctx, caller, p.Input, p.Gas, p.Value, uint256.NewInt(7))
		}
	}()
	if len(panicked) > 300 {
		panicked = panicked[:300]
	}
	lines = append(lines, fzLine{K: "result", Run: name, Panic: panicked, Err: jgErr(errText(err))})
	// bookkeeping closed: call-tree cursor at rest, and a follow-up top-level call is announced at depth 0
	probe := fzLine{K: "probe", Run: name}
	if e.EVM.Tracer().CallTree().Current() == nil {
		probe.Cursor = 1
	}
	before := wr.starts
	func() {
		defer func() { _ = recover() }()
		st.Prepare(rules, gen.EO, evmx.DefaultCoinbase, &gen.NX, vm.ActivePrecompiles(rules), nil)
		_, _, _ = e.EVM.Call(e.Ctx, vm.AccountRef(gen.EO), gen.NX, nil, 50000, big.NewInt(0))
	}()
	if wr.starts == before+1 {
		probe.Start = 1
	}
	lines = append(lines, wr.lines...)
	lines = append(lines, probe)
	return lines
}

func fuzzCmd(args []string) int {
	fs := flag.NewFlagSet("fuzz", flag.ExitOnError)
	outDir := fs.String("out", "", "directory for the trace batches")
	seed := fs.Int64("seed", 1, "seed")
	n := fs.Int("n", 500, "programs")
	batches := fs.Int("batches", 4, "batch files")
	forksF := fs.String("forks", "London,Cancun,Byzantium,Frontier", "forks")
	_ = fs.Parse(args)
	forks := strings.Split(*forksF, ",")
	_ = os.MkdirAll(*outDir, 0o755)
	g := gen.New(*seed)
	g.Artela = true
	var progs []*gen.Program
	for i := 0; i < *n; i++ {
		progs = append(progs, g.Next(i))
	}
	// every memory-expanding instruction with windows of 64 KiB .. 4 MiB, at a small and a large gas limit (C20: growth must be paid for)
	progs = append(progs, gen.MemGrow()...)
	// every single-instruction program of the operand-class matrix (C03: boundary operands 0, 31/32/33, 2^63, 2^64 +- 33, 2^256-1)
	for _, mp := range gen.Matrix() {
		if mp.Name == "matrix" {
			progs = append(progs, mp)
		}
	}
	files := make([]*os.File, *batches)
	encs := make([]*json.Encoder, *batches)
	var fnames []string
	for i := range files {
		fn := filepath.Join(*outDir, fmt.Sprintf("fuzz%02d.ndjson", i))
		f, err := os.Create(fn)
		if err != nil {
			fmt.Fprintln(os.Stderr, err)
			return 2
		}
		files[i], encs[i] = f, json.NewEncoder(f)
		fnames = append(fnames, fn)
	}
	var mu sync.Mutex
	total, runs, work, journalSteps, preCalls := 0, 0, 0, 0, 0
	type job struct {
		i int
		p *gen.Program
	}
	jobs := make(chan job, 64)
	var wg sync.WaitGroup
	for wk := 0; wk < runtime.NumCPU(); wk++ {
		wg.Add(1)
		go func() {
			defer wg.Done()
			for j := range jobs {
				fork := forks[j.i%len(forks)]
				lines := fzRun(j.p, fork, j.i%3 == 0, fmt.Sprintf("%d/%s/%s/%s", j.i, j.p.Name, fork, j.p.Entry))
				mu.Lock()
				bi := j.i % *batches
				for _, l := range lines {
					_ = encs[bi].Encode(l)
					if l.K == "work" {
						work++
						if l.Op >= 0xe0 && l.Op <= 0xe7 {
							journalSteps++
						}
					}
				}
				total += len(lines)
				runs++
				mu.Unlock()
			}
		}()
	}
	for i, p := range progs {
		jobs <- job{i, p}
	}
	close(jobs)
	wg.Wait()
	for _, f := range files {
		f.Close()
	}
	_ = preCalls
	rep := map[string]interface{}{"runs": runs, "lines": total, "work_lines": work, "journal_opcode_steps": journalSteps, "files": fnames}
	raw, _ := json.MarshalIndent(rep, "", " ")
	_ = os.WriteFile(filepath.Join(*outDir, "report.json"), raw, 0o644)
	fmt.Printf("FUZZ-DONE runs=%d lines=%d work=%d journal-steps=%d\n", runs, total, work, journalSteps)
	return 0
}
