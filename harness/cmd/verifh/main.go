package main

import (
	"encoding/json"
	"fmt"
	"math/big"
	"os"
	"time"

	"github.com/artela-network/artela-evm/vm"
	"github.com/ethereum/go-ethereum/common"
	"verif/harness/evmx"
)

func smoke() {
	a := common.HexToAddress("0xaa")
	b := common.HexToAddress("0xbb")
	e := evmx.NewEnv(evmx.EnvOpts{Fork: "London", Tracer: true, Steps: true})
	// b: SSTORE(0,1) STOP
	e.State.SetCode(b, evmx.NewAsm().Push(1).Push(0).Op(vm.SSTORE, vm.STOP).Bytes())
	// a: CALL(gas, b, 1, 0,1,0,0) ; SSTORE(1, success)
	e.State.SetCode(a, evmx.NewAsm().Push(0).Push(0).Push(1).Push(0).Push(1).PushAddr(b).Op(vm.GAS, vm.CALL).Push(1).Op(vm.SSTORE, vm.STOP).Bytes())
	e.State.SetBalance(a, big.NewInt(5))
	e.State.SetBalance(e.Origin, big.NewInt(100))
	e.Host.Bindings[evmx.BindKey(b, "pre")] = evmx.Binding{Aspects: []evmx.AspectSpec{{ID: "0x00000000000000000000000000000000000000a1", Loop: 1000}}}
	e.Host.Bindings[evmx.BindKey(b, "post")] = evmx.Binding{Aspects: []evmx.AspectSpec{{ID: "0x00000000000000000000000000000000000000a1", Loop: 10, Trap: os.Getenv("TRAP") != ""}}}
	e.Prepare(&a)
	t0 := time.Now()
	res := e.Call(e.Origin, a, []byte{1}, 1_000_000, big.NewInt(0))
	fmt.Println("elapsed", time.Since(t0))
	for _, ev := range e.Rec.Events {
		j, _ := json.Marshal(ev)
		fmt.Println(string(j))
	}
	fmt.Printf("res: ret=%x left=%d err=%v panic=%q\n", res.Ret, res.Left, res.Err, res.Panic)
	j, _ := json.Marshal(evmx.DumpTree(e.EVM.Tracer()))
	fmt.Println(string(j))
	fmt.Println("bal b", e.State.GetBalance(b), "stor", e.State.GetState(a, common.Hash{31: 1}), e.State.GetState(b, common.Hash{}))
	j, _ = json.Marshal(e.Xfers)
	fmt.Println(string(j))
	t0 = time.Now()
	for i := 0; i < 20; i++ {
		e2 := evmx.NewEnv(evmx.EnvOpts{Fork: "London"})
		e2.State.SetCode(b, evmx.NewAsm().Push(1).Push(0).Op(vm.SSTORE, vm.STOP).Bytes())
		e2.Host.Bindings = e.Host.Bindings
		e2.Prepare(&b)
		e2.Call(e2.Origin, b, []byte{1}, 1_000_000, big.NewInt(0))
	}
	fmt.Println("20 runs w/ 2 aspects", time.Since(t0))
}

func main() {
	if len(os.Args) < 2 {
		fmt.Println("usage: verifh <cmd>")
		os.Exit(2)
	}
	switch os.Args[1] {
	case "smoke":
		smoke()
	case "scn":
		os.Exit(scnCmd(os.Args[2:]))
	case "calltracer":
		os.Exit(calltracerCmd(os.Args[2:]))
	case "codec":
		os.Exit(codecCmd(os.Args[2:]))
	case "precompile":
		os.Exit(precompileCmd(os.Args[2:]))
	case "mcopy":
		os.Exit(mcopyCmd(os.Args[2:]))
	case "trace":
		os.Exit(traceCmd(os.Args[2:]))
	case "instances":
		os.Exit(instancesCmd(os.Args[2:]))
	case "jpgas":
		os.Exit(jpgasCmd(os.Args[2:]))
	case "fuzz":
		os.Exit(fuzzCmd(os.Args[2:]))
	case "keytree":
		os.Exit(keytreeCmd(os.Args[2:]))
	}
}
