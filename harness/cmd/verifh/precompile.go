package main

// verifh precompile: executes the payload vectors enumerated by spec/PrecompileScn.tla on the
// real Artela precompiles 0x64/0x65/0x66 and compares what reached the host callbacks (C14, C03).

import (
	"bufio"
	"bytes"
	"encoding/hex"
	"encoding/json"
	"errors"
	"flag"
	"fmt"
	"math/big"
	"os"
	"runtime"
	"strings"

	"github.com/artela-network/artela-evm/vm"
	"github.com/ethereum/go-ethereum/common"
	"verif/harness/evmx"
)

type pcVec struct {
	K     string `json:"k"`
	N     int    `json:"n"`
	Off0  int    `json:"off0"`
	Off1  int    `json:"off1"`
	Len0  int    `json:"len0"`
	Len1  int    `json:"len1"`
	Kind  string `json:"kind"`
	Depth int    `json:"depth"`
	Fork  string `json:"fork"`
	Pc    string `json:"pc"`
	Kind1 string `json:"kind1"`
	Kind2 string `json:"kind2"`
	Same  bool   `json:"same"`
	Addr  int    `json:"addr"`
	A     int    `json:"a"`
	B     int    `json:"b"`
	C     int    `json:"c"`
}

type pcExp struct {
	Ok     bool   `json:"ok"`
	KStart int    `json:"kstart"`
	KLen   int    `json:"klen"`
	VStart int    `json:"vstart"`
	VLen   int    `json:"vlen"`
	Avail  bool   `json:"avail"`
	Must   string `json:"must"`
	PerGas uint64 `json:"allocPerGas"`
	Slack  uint64 `json:"allocSlack"`
}

type pcLine struct {
	V pcVec `json:"v"`
	E pcExp `json:"e"`
}

var (
	pcRead    = common.HexToAddress("0x64")
	pcSender  = common.HexToAddress("0x65")
	pcWrite   = common.HexToAddress("0x66")
	pcBig1008 = new(big.Int).Sub(new(big.Int).Lsh(big.NewInt(1), 64), big.NewInt(32))
)

func pcOpnd(code int) *big.Int {
	if code == 1008 {
		return pcBig1008
	}
	return opnd(code)
}

// pattern bytes: never zero, so that an unwritten word is a huge number
func pcPat(n int) []byte {
	b := make([]byte, n)
	for i := range b {
		b[i] = byte(0x81 + i%0x70)
	}
	return b
}

func pcWord(v *big.Int) []byte { return common.LeftPadBytes(v.Bytes(), 32) }

type pcRunner struct {
	out     []jcMismatch
	fees    map[string]map[uint64]int
	workN   int
	workOK  int
	workMax uint64
}

func (r *pcRunner) miss(comp, f string, a ...interface{}) {
	r.out = append(r.out, jcMismatch{Comp: comp, Detail: fmt.Sprintf(f, a...)})
}

func (r *pcRunner) fee(pc string, f uint64) {
	if r.fees[pc] == nil {
		r.fees[pc] = map[uint64]int{}
	}
	r.fees[pc][f]++
}

const pcGas = 200000

func pcDirect(fork string, to common.Address, payload []byte, prep func(e *evmx.Env)) (*evmx.Env, evmx.Result) {
	e := evmx.NewEnv(evmx.EnvOpts{Fork: fork})
	if prep != nil {
		prep(e)
	}
	e.Prepare(&to)
	e.EVM.IsExecuteJP = false
	res := e.Call(e.Origin, to, payload, pcGas, big.NewInt(0))
	return e, res
}

func (r *pcRunner) write(v pcVec, x pcExp) {
	p := pcPat(v.N)
	if v.N >= 64 {
		copy(p[0:], pcWord(pcOpnd(v.Off0)))
		copy(p[32:], pcWord(pcOpnd(v.Off1)))
		if v.Off0 < 1000 && v.Off0 >= 64 && v.Off0+32 <= v.N {
			copy(p[v.Off0:], pcWord(pcOpnd(v.Len0)))
		}
		if v.Off1 < 1000 && v.Off1 >= 64 && v.Off1+32 <= v.N {
			copy(p[v.Off1:], pcWord(pcOpnd(v.Len1)))
		}
	}
	e, res := pcDirect("London", pcWrite, p, nil)
	desc := fmt.Sprintf("0x66 payload of %d bytes, heads (%v, %v), length words (%v, %v)", v.N, pcOpnd(v.Off0), pcOpnd(v.Off1), pcOpnd(v.Len0), pcOpnd(v.Len1))
	if res.Panic != "" {
		r.miss("pc.panic", "%s panicked: %s", desc, res.Panic)
		return
	}
	var writes []evmx.HostCall
	for _, c := range e.Host.Calls {
		if c.Kind == "write" {
			writes = append(writes, c)
		}
	}
	if !x.Ok {
		if res.Err == nil {
			r.miss("pc.decode", "%s is malformed/truncated but was accepted (%d host writes)", desc, len(writes))
		} else if res.Left != 0 {
			r.miss("pc.gas", "%s: rejected but %d gas returned", desc, res.Left)
		}
		if len(writes) != 0 {
			r.miss("pc.decode", "%s is malformed but reached the host: key %s", desc, writes[0].Key)
		}
		return
	}
	if res.Err != nil {
		r.miss("pc.decode", "%s is well-formed but was rejected: %v", desc, res.Err)
		return
	}
	r.fee("write", pcGas-res.Left)
	key := p[x.KStart : x.KStart+x.KLen]
	val := p[x.VStart : x.VStart+x.VLen]
	if len(writes) != 1 {
		r.miss("pc.decode", "%s: %d host writes, expected 1", desc, len(writes))
		return
	}
	w := writes[0]
	if w.Key != hex.EncodeToString(key) || w.Value != hex.EncodeToString(val) {
		r.miss("pc.decode", "%s: host received key %s value %s, payload contains key %x value %x", desc, w.Key, w.Value, key, val)
	}
	if w.Addr != hex.EncodeToString(e.Origin[:]) {
		r.miss("pc.attr", "%s: write attributed to %s, the caller is %x", desc, w.Addr, e.Origin)
	}
}

func (r *pcRunner) read(v pcVec, x pcExp) {
	p := pcPat(v.N)
	for _, hostErr := range []bool{false, true} {
		e, res := pcDirect("London", pcRead, p, func(e *evmx.Env) {
			e.Host.ReadAnswer = func(a common.Address, key string) ([]byte, error) {
				if hostErr {
					return nil, errors.New("host says no")
				}
				return append([]byte("answer:"), []byte(key)...), nil
			}
		})
		desc := fmt.Sprintf("0x64 payload of %d bytes", v.N)
		if res.Panic != "" {
			r.miss("pc.panic", "%s panicked: %s", desc, res.Panic)
			return
		}
		var reads []evmx.HostCall
		for _, c := range e.Host.Calls {
			if c.Kind == "read" {
				reads = append(reads, c)
			}
		}
		if !x.Ok {
			if res.Err == nil {
				r.miss("pc.decode", "%s is truncated (no 20-byte address) but was accepted", desc)
			}
			if len(reads) != 0 {
				r.miss("pc.decode", "%s is truncated but reached the host", desc)
			}
			continue
		}
		if len(reads) != 1 || reads[0].Addr != hex.EncodeToString(p[:20]) || reads[0].Key != hex.EncodeToString(p[20:]) {
			r.miss("pc.decode", "%s: host reads %+v, payload contains address %x key %x", desc, reads, p[:20], p[20:])
			continue
		}
		if hostErr {
			if res.Err == nil {
				r.miss("pc.return", "%s: the host failed but the precompile reported success", desc)
			}
			continue
		}
		if res.Err != nil {
			r.miss("pc.decode", "%s is well-formed but was rejected: %v", desc, res.Err)
			continue
		}
		r.fee("read", pcGas-res.Left)
		if want := append([]byte("answer:"), p[20:]...); !bytes.Equal(res.Ret, want) {
			r.miss("pc.return", "%s: returned %x, the host answered %x", desc, res.Ret, want)
		}
	}
}

func (r *pcRunner) sender(v pcVec, x pcExp) {
	p := pcPat(v.N)
	ans := common.HexToAddress("0x00000000000000000000000000000000a59ec701")
	e, res := pcDirect("London", pcSender, p, func(e *evmx.Env) {
		e.Host.SenderAnswer = func(h common.Hash) (common.Address, error) { return ans, nil }
	})
	desc := fmt.Sprintf("0x65 payload of %d bytes", v.N)
	if res.Panic != "" {
		r.miss("pc.panic", "%s panicked: %s", desc, res.Panic)
		return
	}
	var calls []evmx.HostCall
	for _, c := range e.Host.Calls {
		if c.Kind == "sender" {
			calls = append(calls, c)
		}
	}
	if !x.Ok {
		if res.Err == nil {
			r.miss("pc.decode", "%s is not a 32-byte hash but was accepted (%d host calls)", desc, len(calls))
		}
		if len(calls) != 0 {
			r.miss("pc.decode", "%s is not a 32-byte hash but reached the host as %s", desc, calls[0].Hash)
		}
		return
	}
	if res.Err != nil {
		r.miss("pc.decode", "%s is well-formed but was rejected: %v", desc, res.Err)
		return
	}
	r.fee("sender", pcGas-res.Left)
	if len(calls) != 1 || calls[0].Hash != hex.EncodeToString(p) {
		r.miss("pc.decode", "%s: host calls %+v, payload contains hash %x", desc, calls, p)
	}
	if !bytes.Equal(res.Ret, ans.Hash().Bytes()) {
		r.miss("pc.return", "%s: returned %x, the host answered %x", desc, res.Ret, ans.Hash().Bytes())
	}
}

func pcCanonical(pc string) (common.Address, []byte) {
	switch pc {
	case "read":
		return pcRead, append(common.HexToAddress("0xc0ffee").Bytes(), []byte("some-key")...)
	case "sender":
		return pcSender, bytes.Repeat([]byte{0x5a}, 32)
	}
	p := make([]byte, 0, 192)
	w := func(v uint64) { p = append(p, common.LeftPadBytes(new(big.Int).SetUint64(v).Bytes(), 32)...) }
	w(64)
	w(128)
	w(3)
	p = append(p, common.RightPadBytes([]byte("key"), 32)...)
	w(5)
	p = append(p, common.RightPadBytes([]byte("value"), 32)...)
	return pcWrite, p
}

func (r *pcRunner) attr(v pcVec, x pcExp) {
	target, payload := pcCanonical(v.Pc)
	if v.Kind == "STATICCALL" && evmx.ForkIndex(v.Fork) < evmx.ForkIndex("Byzantium") {
		return
	}
	A := common.HexToAddress("0x00000000000000000000000000000000000000aa")
	B := common.HexToAddress("0x00000000000000000000000000000000000000bb")
	a := evmx.NewAsm()
	a.MStoreBytes(0x100, payload)
	a.Push(32).Push(0x300).Push(uint64(len(payload))).Push(0x100)
	// a bounded amount of gas is forwarded: a refused call forfeits it, and the caller must be able to go on
	switch v.Kind {
	case "CALL":
		a.Push(0).PushAddr(target).Push(60000).Op(vm.CALL)
	case "CALLCODE":
		a.Push(0).PushAddr(target).Push(60000).Op(vm.CALLCODE)
	case "DELEGATECALL":
		a.PushAddr(target).Push(60000).Op(vm.DELEGATECALL)
	case "STATICCALL":
		a.PushAddr(target).Push(60000).Op(vm.STATICCALL)
	}
	// flag+1 at slot 1 (so that 0 is distinguishable from "not reached")
	a.Push(1).Op(vm.ADD).Push(1).Op(vm.SSTORE, vm.STOP)
	e := evmx.NewEnv(evmx.EnvOpts{Fork: v.Fork})
	e.State.SetCode(A, a.Bytes())
	e.State.SetNonce(A, 1)
	to := A
	if v.Depth == 2 {
		b := evmx.NewAsm().Push(0).Push(0).Push(0).Push(0).Push(0).PushAddr(A).Op(vm.GAS, vm.CALL, vm.POP, vm.STOP)
		e.State.SetCode(B, b.Bytes())
		e.State.SetNonce(B, 1)
		to = B
	}
	e.Host.SenderAnswer = func(h common.Hash) (common.Address, error) { return common.HexToAddress("0xa59ec7"), nil }
	e.Host.ReadAnswer = func(a common.Address, key string) ([]byte, error) { return []byte("ans"), nil }
	e.Prepare(&to)
	e.EVM.IsExecuteJP = false
	res := e.Call(e.Origin, to, nil, 1_000_000, big.NewInt(0))
	desc := fmt.Sprintf("%s to the %s precompile from a contract at depth %d on %s", v.Kind, v.Pc, v.Depth, v.Fork)
	if res.Panic != "" {
		r.miss("pc.panic", "%s panicked: %s", desc, res.Panic)
		return
	}
	if res.Err != nil {
		r.miss("pc.setup", "%s: outer call failed: %v", desc, res.Err)
		return
	}
	flag := e.State.GetState(A, common.BigToHash(big.NewInt(1))).Big().Int64() - 1
	var calls []evmx.HostCall
	for _, c := range e.Host.Calls {
		calls = append(calls, c)
	}
	if !x.Avail {
		if len(calls) != 0 {
			r.miss("pc.fork", "%s: the precompile is not available before Berlin but the host was reached", desc)
		}
		return
	}
	switch v.Pc {
	case "write":
		aHex := hex.EncodeToString(A[:])
		for _, c := range calls {
			if c.Kind == "write" && c.Addr != aHex {
				r.miss("pc.attr", "%s: the write was attributed to %s, the calling contract is %s", desc, c.Addr, aHex)
			}
		}
		if x.Must == "caller" {
			if flag != 1 || len(calls) != 1 {
				r.miss("pc.attr", "%s: success flag %d, %d host writes; expected one write attributed to the caller", desc, flag, len(calls))
			}
		} else {
			if flag == 1 && len(calls) != 1 {
				r.miss("pc.attr", "%s: reported success but %d host writes", desc, len(calls))
			}
			if flag == 0 && len(calls) != 0 {
				r.miss("pc.attr", "%s: refused but the host was written to", desc)
			}
		}
	default:
		if flag != 1 || len(calls) != 1 {
			r.miss("pc.decode", "%s: success flag %d, %d host calls; expected 1 and 1", desc, flag, len(calls))
		}
	}
}

// pcCaller builds a contract that reaches 0x66 with the canonical payload by the given call kind and stores flag+1 at slot 1.
func pcCaller(kind string) []byte {
	target, payload := pcCanonical("write")
	a := evmx.NewAsm()
	a.MStoreBytes(0x100, payload)
	a.Push(32).Push(0x300).Push(uint64(len(payload))).Push(0x100)
	switch kind {
	case "CALL":
		a.Push(0).PushAddr(target).Push(60000).Op(vm.CALL)
	case "CALLCODE":
		a.Push(0).PushAddr(target).Push(60000).Op(vm.CALLCODE)
	case "DELEGATECALL":
		a.PushAddr(target).Push(60000).Op(vm.DELEGATECALL)
	case "STATICCALL":
		a.PushAddr(target).Push(60000).Op(vm.STATICCALL)
	}
	a.Push(1).Op(vm.ADD).Push(1).Op(vm.SSTORE, vm.STOP)
	return a.Bytes()
}

// seq: contract A1 reaches 0x66 by kind1, then contract A2 (the same or another one) by kind2, in one process and one EVM
func (r *pcRunner) seq(v pcVec, x pcExp) {
	A1 := common.HexToAddress("0x00000000000000000000000000000000000000a1")
	A2 := common.HexToAddress("0x00000000000000000000000000000000000000a2")
	if v.Same {
		A2 = A1
	}
	e := evmx.NewEnv(evmx.EnvOpts{Fork: v.Fork})
	e.State.SetCode(A1, pcCaller(v.Kind1))
	e.State.SetNonce(A1, 1)
	if !v.Same {
		e.State.SetCode(A2, pcCaller(v.Kind2))
		e.State.SetNonce(A2, 1)
	}
	e.EVM.IsExecuteJP = false
	desc := fmt.Sprintf("%s to 0x66 by one contract, then %s by %s on %s", v.Kind1, v.Kind2, map[bool]string{true: "the same contract", false: "another contract"}[v.Same], v.Fork)
	e.Prepare(&A1)
	r1 := e.Call(e.Origin, A1, nil, 1_000_000, big.NewInt(0))
	n1 := len(e.Host.Calls)
	if v.Same {
		e.State.SetCode(A1, pcCaller(v.Kind2))
		e.State.SetState(A1, common.BigToHash(big.NewInt(1)), common.Hash{})
	}
	e.Prepare(&A2)
	r2 := e.Call(e.Origin, A2, nil, 1_000_000, big.NewInt(0))
	if r1.Panic != "" || r2.Panic != "" {
		r.miss("pc.panic", "%s panicked: %s %s", desc, r1.Panic, r2.Panic)
		return
	}
	flag := e.State.GetState(A2, common.BigToHash(big.NewInt(1))).Big().Int64() - 1
	second := e.Host.Calls[n1:]
	a2 := hex.EncodeToString(A2[:])
	for _, c := range second {
		if c.Kind == "write" && c.Addr != a2 {
			r.miss("pc.attr", "%s: the second write was attributed to %s, the calling contract is %s", desc, c.Addr, a2)
		}
	}
	if x.Must == "caller" && (flag != 1 || len(second) != 1) {
		r.miss("pc.attr", "%s: second call has success flag %d and %d host writes; expected one write attributed to its caller", desc, flag, len(second))
	}
	if x.Must != "caller" {
		if flag == 1 && len(second) != 1 {
			r.miss("pc.attr", "%s: second call reported success but %d host writes", desc, len(second))
		}
		if flag == 0 && len(second) != 0 {
			r.miss("pc.attr", "%s: second call was refused but the host was written to", desc)
		}
	}
}

const pcWorkGas = 3_000_000

// work: a call whose first three payload words announce lengths of every size class; the bytes the whole call allocates
// (runtime.MemStats.TotalAlloc around it; this command is single-threaded) must be bounded by the gas it is charged (C20).
func (r *pcRunner) work(v pcVec, x pcExp) {
	to := common.BytesToAddress([]byte{byte(v.Addr)})
	payload := append(append(append([]byte{}, pcWord(pcOpnd(v.A))...), pcWord(pcOpnd(v.B))...), pcWord(pcOpnd(v.C))...)
	if v.N > len(payload) {
		payload = append(payload, pcPat(v.N-len(payload))...)
	}
	e := evmx.NewEnv(evmx.EnvOpts{Fork: v.Fork})
	e.Prepare(&to)
	e.EVM.IsExecuteJP = false
	var m0, m1 runtime.MemStats
	runtime.ReadMemStats(&m0)
	res := e.Call(e.Origin, to, payload, pcWorkGas, big.NewInt(0))
	runtime.ReadMemStats(&m1)
	if res.Panic != "" {
		r.miss("pc.panic", "precompile 0x%x on %s, announced lengths %s/%s/%s in %d bytes: panic %s", v.Addr, v.Fork, pcOpnd(v.A), pcOpnd(v.B), pcOpnd(v.C), v.N, res.Panic)
		return
	}
	alloc := m1.TotalAlloc - m0.TotalAlloc
	used := uint64(pcWorkGas) - res.Left
	r.workN++
	if alloc > r.workMax {
		r.workMax = alloc
	}
	if res.Err == nil {
		r.workOK++
	}
	if alloc > x.PerGas*used+x.Slack {
		r.miss("pc.work", "call to precompile 0x%x on %s announcing lengths %s/%s/%s in a %d-byte payload allocated %d bytes for %d gas (bound %d bytes per gas + %d)",
			v.Addr, v.Fork, pcOpnd(v.A), pcOpnd(v.B), pcOpnd(v.C), v.N, alloc, used, x.PerGas, x.Slack)
	}
}

func precompileCmd(args []string) int {
	fs := flag.NewFlagSet("precompile", flag.ExitOnError)
	out := fs.String("out", "", "report file")
	one := fs.String("one", "", "replay one vector (json file, possibly wrapped in a replay record)")
	maxSamples := fs.Int("samples", 4, "samples per component")
	_ = fs.Parse(args)
	r := &pcRunner{fees: map[string]map[uint64]int{}}
	runOne := func(l *pcLine) {
		switch l.V.K {
		case "write":
			r.write(l.V, l.E)
		case "read":
			r.read(l.V, l.E)
		case "sender":
			r.sender(l.V, l.E)
		case "attr":
			r.attr(l.V, l.E)
		case "seq":
			r.seq(l.V, l.E)
		case "work":
			r.work(l.V, l.E)
		}
	}
	if *one != "" {
		raw, err := os.ReadFile(*one)
		if err != nil {
			fmt.Fprintln(os.Stderr, err)
			return 2
		}
		var wrap struct {
			Replay *struct {
				Vector json.RawMessage `json:"vector"`
			} `json:"replay"`
		}
		if json.Unmarshal(raw, &wrap) == nil && wrap.Replay != nil && wrap.Replay.Vector != nil {
			raw = wrap.Replay.Vector
		}
		l := &pcLine{}
		if err := json.Unmarshal(raw, l); err != nil {
			fmt.Fprintln(os.Stderr, err)
			return 2
		}
		runOne(l)
		for _, m := range r.out {
			fmt.Printf("MISMATCH %s: %s\n", m.Comp, m.Detail)
		}
		if len(r.out) > 0 {
			return 1
		}
		fmt.Println("conforms")
		return 0
	}
	rep := &jcReport{ByComp: map[string]int{}, Samples: map[string][]jcMismatch{}, ByKind: map[string]int{}}
	sc := bufio.NewScanner(os.Stdin)
	sc.Buffer(make([]byte, 1<<20), 64<<20)
	okCount := 0
	for sc.Scan() {
		t := sc.Text()
		if !strings.HasPrefix(t, `"PC `) {
			fmt.Println(t)
			continue
		}
		body := t[4 : len(t)-1]
		body = strings.ReplaceAll(body, `\"`, `"`)
		body = strings.ReplaceAll(body, `\\`, `\`)
		l := &pcLine{}
		if err := json.Unmarshal([]byte(body), l); err != nil {
			rep.ParseErr++
			continue
		}
		n0 := len(r.out)
		runOne(l)
		rep.Vectors++
		rep.ByKind[l.V.K]++
		if l.E.Ok || l.V.K == "attr" || l.V.K == "seq" || l.V.K == "work" {
			okCount++
		}
		seen := map[string]bool{}
		for _, m := range r.out[n0:] {
			if !seen[m.Comp] {
				seen[m.Comp] = true
				rep.ByComp[m.Comp]++
				if len(rep.Samples[m.Comp]) < *maxSamples {
					m.Vector = json.RawMessage(body)
					rep.Samples[m.Comp] = append(rep.Samples[m.Comp], m)
				}
			}
		}
		if len(rep.Example) < 3 && l.E.Ok && l.V.K == "write" && l.V.Len0 == 32 {
			rep.Example = append(rep.Example, json.RawMessage(body))
		}
	}
	rep.Nontrivial = okCount
	rep.Fees = map[string]uint64{}
	for pc, m := range r.fees {
		i := 0
		for f := range m {
			rep.Fees[fmt.Sprintf("%s#%d", pc, i)] = f
			i++
		}
	}
	if r.workN > 0 {
		rep.Work = []string{fmt.Sprintf("calls=%d succeeded=%d max-alloc=%d", r.workN, r.workOK, r.workMax)}
	}
	fmt.Printf("PC-DONE vectors=%d mismatching-components=%d\n", rep.Vectors, len(rep.ByComp))
	if *out != "" {
		raw, _ := json.MarshalIndent(rep, "", " ")
		if err := os.WriteFile(*out, raw, 0o644); err != nil {
			fmt.Fprintln(os.Stderr, err)
			return 2
		}
	}
	return 0
}
