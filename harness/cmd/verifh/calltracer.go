package main

// verifh calltracer: feeds well-nested callback streams emitted by
// spec/CallTracerScn.tla to the real callTracer and flatCallTracer and compares
// their JSON output with the tree / flat list the model expects (property C19).

import (
	"bufio"
	"encoding/json"
	"errors"
	"flag"
	"fmt"
	"math/big"
	"os"
	"reflect"
	"runtime"
	"strings"
	"sync"

	"github.com/artela-network/artela-evm/tracers"
	_ "github.com/artela-network/artela-evm/tracers/native"
	"github.com/artela-network/artela-evm/vm"
	actypes "github.com/artela-network/aspect-core/types"
	"github.com/ethereum/go-ethereum/common"
	"github.com/ethereum/go-ethereum/common/hexutil"
	"verif/harness/evmx"
)

type ctEv struct {
	E string `json:"e"`
	N int    `json:"n"`
}
type ctNode struct {
	T     string `json:"t"`
	Kind  string `json:"kind"`
	To    string `json:"to"`
	Jp    string `json:"jp"`
	Err   string `json:"err"`
	Under int    `json:"under"`
}
type ctFlat struct {
	N    int   `json:"n"`
	Addr []int `json:"addr"`
	Sub  int   `json:"sub"`
}
type ctStream struct {
	Evs       []ctEv   `json:"evs"`
	Nodes     []ctNode `json:"nodes"`
	Flat      []ctFlat `json:"flat"`
	FlatNoPre []ctFlat `json:"flatNoPre"`
}

type ctMismatch struct {
	Comp   string          `json:"comp"`
	Detail string          `json:"detail"`
	Stream json.RawMessage `json:"stream"`
}

const ctGasLimit = 300000
const ctRest = 1234

var ctPre = common.HexToAddress("0x0000000000000000000000000000000000000004")

func ctContract(n int) common.Address {
	return common.BytesToAddress([]byte{0xc0, 0xde, byte(n)})
}
func ctAspect(n int) common.Address { return common.BytesToAddress([]byte{0xa5, 0x9e, byte(n)}) }
func ctGas(n int) uint64            { return uint64(100000 - 1000*n) }
func ctUsed(n int) uint64           { return uint64(100 + n) }
func ctAGas(n int) uint64           { return uint64(50000 - 100*n) }
func ctALeft(n int) uint64          { return ctAGas(n) - uint64(7*n+3) }
func ctIn(n int) []byte             { return []byte{byte(n), 0xab} }
func ctOut(n int) []byte            { return []byte{0xa0 + byte(n)} }
func ctAOut(n int) []byte           { return []byte{0xb0 + byte(n)} }

func (s *ctStream) node(n int) ctNode { return s.Nodes[n-1] }

// enclosing frame of node n (the frame whose code or whose Aspect issued it)
func (s *ctStream) frameOf(n int) int {
	u := s.node(n).Under
	for u != 0 && s.node(u).T != "frame" {
		u = s.node(u).Under
	}
	return u
}

func (s *ctStream) toAddr(n int) common.Address {
	if s.node(n).To == "p" {
		return ctPre
	}
	return ctContract(n)
}

func (s *ctStream) fromAddr(n int) common.Address {
	f := s.frameOf(n)
	if f == 0 {
		return evmx.DefaultOrigin
	}
	return s.toAddr(f)
}

func ctErr(e string) error {
	switch e {
	case "revert":
		return vm.ErrExecutionReverted
	case "oog":
		return vm.ErrOutOfGas
	case "fail":
		return errors.New("aspect failed")
	}
	return nil
}

func ctOp(kind string) vm.OpCode {
	switch kind {
	case "STATICCALL":
		return vm.STATICCALL
	case "DELEGATECALL":
		return vm.DELEGATECALL
	case "CALLCODE":
		return vm.CALLCODE
	case "CREATE":
		return vm.CREATE
	case "CREATE2":
		return vm.CREATE2
	}
	return vm.CALL
}

func (s *ctStream) value(n int) *big.Int {
	if s.node(n).Kind == "STATICCALL" {
		return nil
	}
	return big.NewInt(int64(n))
}

type aspectLogger interface {
	actypes.AspectLogger
}

// feed drives one tracer with the stream. Returns the panic text, if any.
func (s *ctStream) feed(t tracers.Tracer, env *vm.EVM) (panicked string) {
	defer func() {
		if r := recover(); r != nil {
			panicked = fmt.Sprint(r)
		}
	}()
	al, _ := t.(actypes.AspectLogger)
	for _, e := range s.Evs {
		n := e.N
		switch e.E {
		case "txstart":
			t.CaptureTxStart(ctGasLimit)
		case "start":
			t.CaptureStart(env, s.fromAddr(n), s.toAddr(n), false, ctIn(n), ctGas(n), s.value(n))
		case "end":
			t.CaptureEnd(ctOut(n), ctUsed(n), ctErr(s.node(n).Err))
		case "txend":
			t.CaptureTxEnd(ctRest)
		case "enter":
			t.CaptureEnter(ctOp(s.node(n).Kind), s.fromAddr(n), s.toAddr(n), ctIn(n), ctGas(n), s.value(n))
		case "exit":
			t.CaptureExit(ctOut(n), ctUsed(n), ctErr(s.node(n).Err))
		case "aenter":
			f := s.node(n).Under
			jp := ctJP(s.node(n).Jp)
			idx := uint64(f)
			g := ctAGas(n)
			from := s.fromAddr(f)
			to := s.toAddr(f)
			if al != nil {
				if jp == actypes.JoinPointRunType_PreTxExecute {
					al.CaptureAspectEnter(jp, from, to, ctAspect(n), ctIn(f), ctAGas(n), s.value(f), &actypes.PreTxExecuteInput{})
				} else if jp == actypes.JoinPointRunType_PostTxExecute {
					al.CaptureAspectEnter(jp, from, to, ctAspect(n), ctIn(f), ctAGas(n), s.value(f), &actypes.PostTxExecuteInput{})
				} else if jp == actypes.JoinPointRunType_PreContractCall {
					al.CaptureAspectEnter(jp, from, to, ctAspect(n), ctIn(f), ctAGas(n), s.value(f),
						&actypes.PreContractCallInput{Call: &actypes.PreExecMessageInput{From: from.Bytes(), To: to.Bytes(), Index: &idx, Data: ctIn(f), Value: []byte{byte(f)}, Gas: &g}})
				} else {
					al.CaptureAspectEnter(jp, from, to, ctAspect(n), ctIn(f), ctAGas(n), s.value(f),
						&actypes.PostContractCallInput{Call: &actypes.PostExecMessageInput{From: from.Bytes(), To: to.Bytes(), Index: &idx, Data: ctIn(f), Value: []byte{byte(f)}, Gas: &g}})
				}
			}
		case "aexit":
			jp := ctJP(s.node(n).Jp)
			if al != nil {
				al.CaptureAspectExit(jp, &actypes.AspectExecutionResult{Gas: ctALeft(n), Ret: ctAOut(n), Err: ctErr(s.node(n).Err)})
			}
		}
	}
	return ""
}

func (s *ctStream) kids(n int, frames bool) []int {
	var out []int
	for i := range s.Nodes {
		if s.Nodes[i].Under == n && (s.Nodes[i].T == "frame") == frames {
			out = append(out, i+1)
		}
	}
	return out
}

// ---------------------------------------------------------------------------
// expected nested output

func hexU(v uint64) string { return hexutil.EncodeUint64(v) }

func (s *ctStream) expFrame(n int, top bool, onlyTop bool) map[string]interface{} {
	nd := s.node(n)
	m := map[string]interface{}{
		"type":  nd.Kind,
		"from":  strings.ToLower(s.fromAddr(n).Hex()),
		"input": hexutil.Encode(ctIn(n)),
	}
	if top {
		m["gas"] = hexU(ctGasLimit)
		m["gasUsed"] = hexU(ctGasLimit - ctRest)
	} else {
		m["gas"] = hexU(ctGas(n))
		m["gasUsed"] = hexU(ctUsed(n))
	}
	failed := nd.Err != ""
	if !(failed && (nd.Kind == "CREATE" || nd.Kind == "CREATE2")) {
		m["to"] = strings.ToLower(s.toAddr(n).Hex())
	}
	if !failed || nd.Err == "revert" {
		m["output"] = hexutil.Encode(ctOut(n))
	}
	if failed {
		m["error"] = ctErr(nd.Err).Error()
	}
	if v := s.value(n); v != nil {
		m["value"] = hexutil.EncodeBig(v)
	}
	if !onlyTop {
		var calls []interface{}
		for _, c := range s.kids(n, true) {
			calls = append(calls, s.expFrame(c, false, false))
		}
		if calls != nil {
			m["calls"] = calls
		}
	}
	var jps []interface{}
	for _, a := range s.kids(n, false) {
		jps = append(jps, s.expAsp(a, onlyTop))
	}
	if jps != nil {
		m["joinPoints"] = jps
	}
	return m
}

func jpTypeName(jp string) string {
	switch jp {
	case "post":
		return "postContractCall"
	case "pretx":
		return "preTxExecute"
	case "posttx":
		return "postTxExecute"
	}
	return "preContractCall"
}

func ctJP(jp string) actypes.JoinPointRunType {
	switch jp {
	case "post":
		return actypes.JoinPointRunType_PostContractCall
	case "pretx":
		return actypes.JoinPointRunType_PreTxExecute
	case "posttx":
		return actypes.JoinPointRunType_PostTxExecute
	}
	return actypes.JoinPointRunType_PreContractCall
}

func (s *ctStream) expAsp(a int, onlyTop bool) map[string]interface{} {
	nd := s.node(a)
	f := nd.Under
	m := map[string]interface{}{
		"type":    jpTypeName(nd.Jp),
		"aspect":  strings.ToLower(ctAspect(a).Hex()),
		"from":    strings.ToLower(s.fromAddr(f).Hex()),
		"to":      strings.ToLower(s.toAddr(f).Hex()),
		"gas":     hexU(ctAGas(a)),
		"gasUsed": hexU(ctAGas(a) - ctALeft(a)),
		"input":   hexutil.Encode(ctIn(f)),
		"output":  hexutil.Encode(ctAOut(a)),
	}
	if nd.Err != "" {
		m["error"] = ctErr(nd.Err).Error()
	}
	if !onlyTop {
		var calls []interface{}
		for _, c := range s.kids(a, true) {
			calls = append(calls, s.expFrame(c, false, false))
		}
		if calls != nil {
			m["calls"] = calls
		}
	}
	return m
}

// normalise the actual nested JSON: keep only the fields C19 speaks about, in canonical text form
func normNum(v interface{}) interface{} {
	switch x := v.(type) {
	case float64:
		return hexU(uint64(x))
	case string:
		return strings.ToLower(x)
	}
	return v
}

func normBytes(v interface{}) interface{} {
	s, ok := v.(string)
	if !ok {
		return v
	}
	if strings.HasPrefix(s, "0x") {
		return strings.ToLower(s)
	}
	// default []byte encoding is base64
	var b []byte
	if err := json.Unmarshal([]byte(`"`+s+`"`), &b); err == nil {
		return hexutil.Encode(b)
	}
	return s
}

func normFrame(m map[string]interface{}, asp bool) map[string]interface{} {
	out := map[string]interface{}{}
	for _, k := range []string{"type", "error"} {
		if v, ok := m[k]; ok {
			out[k] = v
		}
	}
	for _, k := range []string{"from", "to", "aspect", "value"} {
		if v, ok := m[k]; ok {
			out[k] = normNum(v)
		}
	}
	for _, k := range []string{"gas", "gasUsed"} {
		if v, ok := m[k]; ok {
			out[k] = normNum(v)
		}
	}
	for _, k := range []string{"input", "output"} {
		if v, ok := m[k]; ok && v != nil {
			out[k] = normBytes(v)
		}
	}
	if asp {
		delete(out, "value")
	}
	if cs, ok := m["calls"].([]interface{}); ok && len(cs) > 0 {
		var l []interface{}
		for _, c := range cs {
			if cm, ok := c.(map[string]interface{}); ok {
				l = append(l, normFrame(cm, false))
			}
		}
		out["calls"] = l
	}
	if js, ok := m["joinPoints"].([]interface{}); ok && len(js) > 0 {
		var l []interface{}
		for _, c := range js {
			if cm, ok := c.(map[string]interface{}); ok {
				l = append(l, normFrame(cm, true))
			}
		}
		out["joinPoints"] = l
	}
	return out
}

func firstDiff(path string, a, b interface{}) string {
	if reflect.DeepEqual(a, b) {
		return ""
	}
	am, aok := a.(map[string]interface{})
	bm, bok := b.(map[string]interface{})
	if aok && bok {
		keys := map[string]bool{}
		for k := range am {
			keys[k] = true
		}
		for k := range bm {
			keys[k] = true
		}
		for _, k := range sortedKeys(keys) {
			if d := firstDiff(path+"."+k, am[k], bm[k]); d != "" {
				return d
			}
		}
	}
	al, aok := a.([]interface{})
	bl, bok := b.([]interface{})
	if aok && bok {
		if len(al) != len(bl) {
			return fmt.Sprintf("%s: %d entries emitted, %d expected", path, len(al), len(bl))
		}
		for i := range al {
			if d := firstDiff(fmt.Sprintf("%s[%d]", path, i), al[i], bl[i]); d != "" {
				return d
			}
		}
	}
	return fmt.Sprintf("%s: emitted %v, expected %v", path, a, b)
}

// ---------------------------------------------------------------------------
// expected flat output

var parityMap = map[string]string{"out of gas": "Out of gas", "execution reverted": "Reverted"}

func (s *ctStream) expFlat(list []ctFlat, parity bool) []interface{} {
	var out []interface{}
	for _, e := range list {
		nd := s.node(e.N)
		m := map[string]interface{}{"subtraces": float64(e.Sub)}
		ta := make([]interface{}, len(e.Addr))
		for i, a := range e.Addr {
			ta[i] = float64(a)
		}
		m["traceAddress"] = ta
		errText := ""
		if nd.Err != "" {
			errText = ctErr(nd.Err).Error()
		}
		withResult := errText == "" || nd.Err == "revert"
		if nd.T == "frame" {
			top := e.N == 1
			gas, used := ctGas(e.N), ctUsed(e.N)
			if top {
				gas, used = ctGasLimit, ctGasLimit-ctRest
			}
			act := map[string]interface{}{"from": strings.ToLower(s.fromAddr(e.N).Hex()), "gas": hexU(gas)}
			v := s.value(e.N)
			if v == nil {
				v = big.NewInt(0)
			}
			act["value"] = hexutil.EncodeBig(v)
			res := map[string]interface{}{"gasUsed": hexU(used)}
			outB := ctOut(e.N)
			if nd.Err != "" && nd.Err != "revert" {
				outB = nil
			}
			if nd.Kind == "CREATE" || nd.Kind == "CREATE2" {
				m["type"] = "create"
				act["init"] = hexutil.Encode(ctIn(e.N))
				if nd.Err == "" {
					res["address"] = strings.ToLower(s.toAddr(e.N).Hex())
				}
				res["code"] = hexutil.Encode(outB)
			} else {
				m["type"] = "call"
				act["callType"] = strings.ToLower(nd.Kind)
				act["to"] = strings.ToLower(s.toAddr(e.N).Hex())
				act["input"] = hexutil.Encode(ctIn(e.N))
				res["output"] = hexutil.Encode(outB)
			}
			m["action"] = act
			if withResult {
				m["result"] = res
			}
		} else {
			f := nd.Under
			m["type"] = "call"
			act := map[string]interface{}{
				"from": strings.ToLower(s.fromAddr(f).Hex()), "to": strings.ToLower(s.toAddr(f).Hex()),
				"aspect": strings.ToLower(ctAspect(e.N).Hex()), "gas": hexU(ctAGas(e.N)),
				"callType": strings.ToLower(jpTypeName(nd.Jp)), "input": hexutil.Encode(ctIn(f)),
			}
			v := s.value(f)
			if v == nil {
				v = big.NewInt(0)
			}
			act["value"] = hexutil.EncodeBig(v)
			m["action"] = act
			if withResult {
				m["result"] = map[string]interface{}{"gasUsed": hexU(ctAGas(e.N) - ctALeft(e.N)), "output": hexutil.Encode(ctAOut(e.N))}
			}
		}
		if errText != "" {
			if parity {
				if p, ok := parityMap[errText]; ok {
					errText = p
				}
			}
			m["error"] = errText
		}
		out = append(out, m)
	}
	return out
}

func normFlat(l []interface{}) []interface{} {
	var out []interface{}
	for _, x := range l {
		m, ok := x.(map[string]interface{})
		if !ok {
			continue
		}
		o := map[string]interface{}{}
		for _, k := range []string{"subtraces", "traceAddress", "type", "error"} {
			if v, ok := m[k]; ok && v != nil {
				o[k] = v
			}
		}
		if ta, ok := o["traceAddress"].([]interface{}); ok && len(ta) == 0 {
			o["traceAddress"] = []interface{}{}
		}
		if a, ok := m["action"].(map[string]interface{}); ok {
			na := map[string]interface{}{}
			for k, v := range a {
				if k == "execContext" {
					continue
				}
				if s, ok := v.(string); ok {
					v = strings.ToLower(s)
				}
				na[k] = v
			}
			o["action"] = na
		}
		if r, ok := m["result"].(map[string]interface{}); ok && r != nil {
			nr := map[string]interface{}{}
			for k, v := range r {
				if s, ok := v.(string); ok {
					v = strings.ToLower(s)
				}
				if v != nil {
					nr[k] = v
				}
			}
			o["result"] = nr
		}
		out = append(out, o)
	}
	return out
}

// structural statement of C19 evaluated on the real flat output
func flatWF(l []interface{}) string {
	addrs := map[string]int{}
	key := func(ta []interface{}) string { return fmt.Sprint(ta) }
	var all [][]interface{}
	for _, x := range l {
		m := x.(map[string]interface{})
		ta, _ := m["traceAddress"].([]interface{})
		all = append(all, ta)
		addrs[key(ta)]++
	}
	for k, n := range addrs {
		if n > 1 {
			return "trace address " + k + " emitted " + fmt.Sprint(n) + " times"
		}
	}
	for i, ta := range all {
		if len(ta) > 0 {
			if addrs[key(ta[:len(ta)-1])] == 0 {
				return fmt.Sprintf("trace address %v has no parent entry", ta)
			}
		}
		kidsN := 0
		for _, tb := range all {
			if len(tb) == len(ta)+1 && key(tb[:len(ta)]) == key(ta) {
				kidsN++
			}
		}
		m := l[i].(map[string]interface{})
		if sub, _ := m["subtraces"].(float64); int(sub) != kidsN {
			return fmt.Sprintf("entry %v: subtraces %v but %d children emitted", ta, m["subtraces"], kidsN)
		}
	}
	return ""
}

// ---------------------------------------------------------------------------

type ctCfg struct {
	name, tracer, cfg string
}

var ctCfgs = []ctCfg{
	{"call", "callTracer", `{}`},
	{"call/withLog", "callTracer", `{"withLog":true}`},
	{"call/onlyTopCall", "callTracer", `{"onlyTopCall":true}`},
	{"flat", "flatCallTracer", `{}`},
	{"flat/includePrecompiles", "flatCallTracer", `{"includePrecompiles":true}`},
	{"flat/parity", "flatCallTracer", `{"convertParityErrors":true}`},
	{"flat/parity+precompiles", "flatCallTracer", `{"convertParityErrors":true,"includePrecompiles":true}`},
}

func (s *ctStream) nestedAspects() bool {
	for i, n := range s.Nodes {
		if n.T == "asp" && n.Under != 1 {
			_ = i
			return true
		}
	}
	return false
}

func ctRun(s *ctStream) (out []ctMismatch, runs int) {
	miss := func(comp, f string, a ...interface{}) {
		out = append(out, ctMismatch{Comp: comp, Detail: fmt.Sprintf(f, a...)})
	}
	env := evmx.NewEnv(evmx.EnvOpts{Fork: "London"})
	for _, c := range ctCfgs {
		onlyTop := strings.Contains(c.cfg, "onlyTopCall")
		if onlyTop && s.nestedAspects() {
			continue // what only-top-call should do with the Aspect runs of calls it does not emit is not stated by C19
		}
		t, err := tracers.DefaultDirectory.New(c.tracer, &tracers.Context{}, json.RawMessage(c.cfg))
		if err != nil {
			miss("ct.setup", "%s: %v", c.name, err)
			continue
		}
		runs++
		if p := s.feed(t, env.EVM); p != "" {
			miss("ct.panic", "[%s] tracer panicked: %s", c.name, p)
			continue
		}
		var raw json.RawMessage
		func() {
			defer func() {
				if r := recover(); r != nil {
					miss("ct.panic", "[%s] GetResult panicked: %v", c.name, r)
				}
			}()
			raw, err = t.GetResult()
		}()
		if raw == nil {
			if err != nil {
				miss("ct.result", "[%s] GetResult failed: %v", c.name, err)
			}
			continue
		}
		if c.tracer == "callTracer" {
			var got map[string]interface{}
			if err := json.Unmarshal(raw, &got); err != nil {
				miss("ct.result", "[%s] bad JSON: %v", c.name, err)
				continue
			}
			want := s.expFrame(1, true, onlyTop)
			if d := firstDiff("top", normFrame(got, false), normFrame(want, false)); d != "" {
				comp := "ct.nested"
				if strings.Contains(d, "joinPoints") && !strings.Contains(d, "entries emitted") && !strings.Contains(d, ".calls") {
					comp = "ct.aspres"
				}
				miss(comp, "[%s] %s", c.name, d)
			}
		} else {
			var got []interface{}
			if err := json.Unmarshal(raw, &got); err != nil {
				miss("ct.result", "[%s] bad JSON: %v", c.name, err)
				continue
			}
			if d := flatWF(got); d != "" {
				miss("ct.flatwf", "[%s] %s", c.name, d)
			}
			list := s.FlatNoPre
			if strings.Contains(c.cfg, "includePrecompiles") {
				list = s.Flat
			}
			want := s.expFlat(list, strings.Contains(c.cfg, "convertParityErrors"))
			var wi, gi interface{} = normFlat(want), normFlat(got)
			// compare through a JSON round trip so that numeric/slice types agree
			wb, _ := json.Marshal(wi)
			gb, _ := json.Marshal(gi)
			var wv, gv interface{}
			_ = json.Unmarshal(wb, &wv)
			_ = json.Unmarshal(gb, &gv)
			if d := firstDiff("flat", gv, wv); d != "" {
				miss("ct.flat", "[%s] %s", c.name, d)
			}
		}
	}
	return
}

type ctReport struct {
	Streams     int                     `json:"histories"`
	Runs        int                     `json:"runs"`
	Nontrivial  int                     `json:"nontrivial"`
	ByComp      map[string]int          `json:"byComp"`
	Samples     map[string][]ctMismatch `json:"samples"`
	Example     []json.RawMessage       `json:"example"`
	ParseErr    int                     `json:"parseErrors"`
	WithAsp     int                     `json:"streamsWithAspects"`
	WithAspCall int                     `json:"streamsWithCallsInsideAspects"`
	MultiAsp    int                     `json:"streamsWithSeveralAspectsOnOneJoinPoint"`
}

func calltracerCmd(args []string) int {
	fs := flag.NewFlagSet("calltracer", flag.ExitOnError)
	out := fs.String("out", "", "report file")
	one := fs.String("one", "", "replay one stream (json file, possibly wrapped in a replay record)")
	maxSamples := fs.Int("samples", 5, "samples per component")
	_ = fs.Parse(args)
	if *one != "" {
		raw, err := os.ReadFile(*one)
		if err != nil {
			fmt.Fprintln(os.Stderr, err)
			return 2
		}
		var wrap struct {
			Replay *struct {
				Stream json.RawMessage `json:"stream"`
			} `json:"replay"`
		}
		if json.Unmarshal(raw, &wrap) == nil && wrap.Replay != nil && wrap.Replay.Stream != nil {
			raw = wrap.Replay.Stream
		}
		s := &ctStream{}
		if err := json.Unmarshal(raw, s); err != nil {
			fmt.Fprintln(os.Stderr, err)
			return 2
		}
		ms, _ := ctRun(s)
		for _, m := range ms {
			fmt.Printf("MISMATCH %s: %s\n", m.Comp, m.Detail)
		}
		if len(ms) > 0 {
			return 1
		}
		fmt.Println("conforms")
		return 0
	}
	rep := &ctReport{ByComp: map[string]int{}, Samples: map[string][]ctMismatch{}}
	var mu sync.Mutex
	lines := make(chan string, 1024)
	var wg sync.WaitGroup
	for i := 0; i < runtime.NumCPU(); i++ {
		wg.Add(1)
		go func() {
			defer wg.Done()
			for line := range lines {
				body := line[4 : len(line)-1]
				body = strings.ReplaceAll(body, `\"`, `"`)
				body = strings.ReplaceAll(body, `\\`, `\`)
				s := &ctStream{}
				if err := json.Unmarshal([]byte(body), s); err != nil {
					mu.Lock()
					rep.ParseErr++
					mu.Unlock()
					continue
				}
				ms, runs := ctRun(s)
				mu.Lock()
				rep.Streams++
				rep.Runs += runs
				if len(s.Nodes) > 1 {
					rep.Nontrivial++
				}
				asp, aspCall := false, false
				perJP := map[string]int{}
				for _, n := range s.Nodes {
					if n.T == "asp" {
						asp = true
						perJP[fmt.Sprint(n.Under, n.Jp)]++
					} else if n.Under > 0 && s.node(n.Under).T == "asp" {
						aspCall = true
					}
				}
				if asp {
					rep.WithAsp++
				}
				if aspCall {
					rep.WithAspCall++
				}
				for _, c := range perJP {
					if c > 1 {
						rep.MultiAsp++
						break
					}
				}
				seen := map[string]bool{}
				for _, m := range ms {
					if !seen[m.Comp] {
						seen[m.Comp] = true
						rep.ByComp[m.Comp]++
						if len(rep.Samples[m.Comp]) < *maxSamples {
							m.Stream = json.RawMessage(body)
							rep.Samples[m.Comp] = append(rep.Samples[m.Comp], m)
						}
					}
				}
				if len(rep.Example) < 2 && aspCall {
					rep.Example = append(rep.Example, json.RawMessage(body))
				}
				mu.Unlock()
			}
		}()
	}
	sc := bufio.NewScanner(os.Stdin)
	sc.Buffer(make([]byte, 1<<20), 64<<20)
	for sc.Scan() {
		t := sc.Text()
		if strings.HasPrefix(t, `"CT `) {
			lines <- t
		} else {
			fmt.Println(t)
		}
	}
	close(lines)
	wg.Wait()
	fmt.Printf("CT-DONE streams=%d runs=%d mismatching-components=%d\n", rep.Streams, rep.Runs, len(rep.ByComp))
	if *out != "" {
		raw, _ := json.MarshalIndent(rep, "", " ")
		if err := os.WriteFile(*out, raw, 0o644); err != nil {
			fmt.Fprintln(os.Stderr, err)
			return 2
		}
	}
	return 0
}
