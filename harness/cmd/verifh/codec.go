package main

// verifh codec: executes the vectors enumerated by spec/JournalCodecScn.tla on the
// real journal opcodes 0xe0-0xe7 and compares with the outcome the model expects
// (C09 decoded values, C12 invisibility and flat fee, C03 no panic, C20 bounded work).

import (
	"bufio"
	"bytes"
	"encoding/hex"
	"encoding/json"
	"flag"
	"fmt"
	"math/big"
	"os"
	"runtime"
	"sort"
	"strings"

	"github.com/artela-network/artela-evm/vm"
	"github.com/ethereum/go-ethereum/common"
	"github.com/ethereum/go-ethereum/crypto"
	"github.com/holiman/uint256"
	"verif/harness/evmx"
)

type jcVec struct {
	K      string `json:"k"`
	Pat    string `json:"pat"`
	Off    int    `json:"off"`
	W      int    `json:"w"`
	Slot   string `json:"slot"`
	Enc    string `json:"enc"`
	Len    int    `json:"len"`
	Cpat   string `json:"cpat"`
	Msize  int    `json:"msize"`
	Ptr    int    `json:"ptr"`
	Op     int    `json:"op"`
	Fork   string `json:"fork"`
	Static bool   `json:"static"`
	Cls    int    `json:"cls"`
	Height int    `json:"height"`
	L1     int    `json:"l1"`
	L2     int    `json:"l2"`
	L3     int    `json:"l3"`
	Again  bool   `json:"again"`
}

type jcStored struct {
	Header []int   `json:"header"`
	Area   [][]int `json:"area"`
}

type jcExp struct {
	Err        bool     `json:"err"`
	Bytes      []int    `json:"bytes"`
	Word       []int    `json:"word"`
	Header     []int    `json:"header"`
	Area       [][]int  `json:"area"`
	Outcome    string   `json:"outcome"`
	Underflow  bool     `json:"underflow"`
	AllocBound int      `json:"allocBound"`
	A1         jcStored `json:"a1"`
	B1         jcStored `json:"b1"`
	A2         jcStored `json:"a2"`
	RecA       [][]int  `json:"reca"`
	RecB       [][]int  `json:"recb"`
}

type jcLine struct {
	V jcVec `json:"v"`
	E jcExp `json:"e"`
}

type jcMismatch struct {
	Comp   string          `json:"comp"`
	Detail string          `json:"detail"`
	Vector json.RawMessage `json:"vector"`
}

var bigVals = map[int]*big.Int{
	1001: new(big.Int).Lsh(big.NewInt(1), 31),
	1002: new(big.Int).Lsh(big.NewInt(1), 32),
	1003: new(big.Int).Lsh(big.NewInt(1), 63),
	1004: new(big.Int).Sub(new(big.Int).Lsh(big.NewInt(1), 64), big.NewInt(1)),
	1005: new(big.Int).Lsh(big.NewInt(1), 64),
	1006: new(big.Int).Lsh(big.NewInt(1), 255),
	1007: new(big.Int).Sub(new(big.Int).Lsh(big.NewInt(1), 256), big.NewInt(1)),
	1009: new(big.Int).Lsh(big.NewInt(1), 16),
	1010: new(big.Int).Lsh(big.NewInt(1), 20),
	1011: new(big.Int).Lsh(big.NewInt(1), 24),
}

func opnd(code int) *big.Int {
	if v, ok := bigVals[code]; ok {
		return v
	}
	return big.NewInt(int64(code))
}

func toBytes(l []int) []byte {
	b := make([]byte, len(l))
	for i, x := range l {
		b[i] = byte(x)
	}
	return b
}

var (
	jcAcct   = common.HexToAddress("0x00000000000000000000000000000000000000aa")
	jcType   = common.HexToHash("0x7700000000000000000000000000000000000000000000000000000000000077")
	jcPType  = common.HexToHash("0x5500000000000000000000000000000000000000000000000000000000000055")
	jcMarker = common.BigToHash(big.NewInt(0x99))
)

func jcSlot(kind string) *big.Int {
	switch kind {
	case "s0":
		return big.NewInt(0)
	case "s1":
		return big.NewInt(1)
	case "s5":
		return big.NewInt(5)
	case "s256":
		return big.NewInt(256)
	case "hashed":
		h := crypto.Keccak256([]byte("verif-slot"))
		h[0] |= 0x80
		return new(big.Int).SetBytes(h)
	case "hashedlz":
		h := crypto.Keccak256([]byte("verif-slot-lz"))
		h[0] = 0
		h[1] |= 0x80
		return new(big.Int).SetBytes(h)
	}
	panic("slot kind " + kind)
}

func renderChanges(c *vm.StorageChanges) string {
	if c == nil {
		return "none"
	}
	m := c.Changes()
	ks := make([]uint64, 0, len(m))
	for k := range m {
		ks = append(ks, k)
	}
	sort.Slice(ks, func(i, j int) bool { return ks[i] < ks[j] })
	var sb strings.Builder
	for _, k := range ks {
		fmt.Fprintf(&sb, "%d:[", k)
		for _, v := range m[k] {
			sb.WriteString(hex.EncodeToString(v) + ",")
		}
		sb.WriteString("] ")
	}
	if sb.Len() == 0 {
		return "none"
	}
	return sb.String()
}

type jcRunner struct {
	out         []jcMismatch
	fees        map[string]uint64 // "op/fork/static" -> fee observed
	work        []string
	memAllocMax uint64
}

func (r *jcRunner) miss(comp, f string, a ...interface{}) {
	r.out = append(r.out, jcMismatch{Comp: comp, Detail: fmt.Sprintf(f, a...)})
}

// run executes `code` at jcAcct in a fresh environment and returns env and result.
func jcExec(fork string, code []byte, prep func(e *evmx.Env), gas uint64, wrap func(vm.StateDB) vm.StateDB) (*evmx.Env, evmx.Result) {
	e := evmx.NewEnv(evmx.EnvOpts{Fork: fork, WrapState: wrap})
	e.State.SetCode(jcAcct, code)
	e.State.SetNonce(jcAcct, 1)
	if prep != nil {
		prep(e)
	}
	to := jcAcct
	e.Prepare(&to)
	e.EVM.IsExecuteJP = false
	res := e.Call(e.Origin, jcAcct, []byte{1}, gas, big.NewInt(0))
	return e, res
}

func markerSet(e *evmx.Env) bool {
	return e.State.GetState(jcAcct, jcMarker) != (common.Hash{})
}

func tail(a *evmx.Asm) []byte {
	return a.Push(1).Push(0x99).Op(vm.SSTORE, vm.STOP).Bytes()
}

func (r *jcRunner) vv(v jcVec, x jcExp) {
	word := toBytes(x.Word)
	slot := big.NewInt(3)
	a := evmx.NewAsm().PushBytes(jcType[:]).PushBig(opnd(v.W)).PushBig(opnd(v.Off)).PushBig(slot).Op(vm.VVJNAL)
	regOff := opnd(v.Off)
	registered := regOff.Cmp(big.NewInt(31)) <= 0
	e, res := jcExec("London", tail(a), func(e *evmx.Env) {
		e.State.SetState(jcAcct, common.BigToHash(slot), common.BytesToHash(word))
		if registered {
			_ = e.EVM.Tracer().SaveStateKey(jcAcct, nil, uint256.MustFromBig(slot), uint256.MustFromBig(regOff), jcType, common.Hash{}, []byte("f"))
		}
	}, 1_000_000, nil)
	if res.Panic != "" {
		r.miss("jc.panic", "VVJNAL offset %v width %v panicked: %s", opnd(v.Off), opnd(v.W), res.Panic)
		return
	}
	var got string
	if registered {
		c, _ := e.EVM.Tracer().StateChanges().Slot(jcAcct, uint256.MustFromBig(slot), uint256.MustFromBig(regOff), jcType)
		got = renderChanges(c)
	} else {
		got = "none"
	}
	if x.Err {
		if res.Err == nil || markerSet(e) {
			r.miss("jc.value", "VVJNAL offset %v width %v is not a valid packed field but the instruction succeeded (journal %s)", opnd(v.Off), opnd(v.W), got)
		} else if res.Left != 0 {
			r.miss("jc.halt", "VVJNAL with malformed operands returned %d gas: not an exceptional halt", res.Left)
		}
		if got != "none" {
			r.miss("jc.value", "VVJNAL offset %v width %v must record nothing, recorded %s", opnd(v.Off), opnd(v.W), got)
		}
		return
	}
	want := fmt.Sprintf("0:[%s,] ", hex.EncodeToString(toBytes(x.Bytes)))
	if res.Err != nil {
		r.miss("jc.value", "VVJNAL offset %d width %d on a valid field failed: %v", v.Off, v.W, res.Err)
		r.miss("jc.invisible", "VVJNAL with well-formed operands (offset %d width %d) halted the frame: %v", v.Off, v.W, res.Err)
		return
	}
	if got != want {
		r.miss("jc.value", "VVJNAL word %x offset %d width %d recorded %s, packed layout says %s", word, v.Off, v.W, got, want)
	}
}

func dataSlot(slot *big.Int, i int) common.Hash {
	base := new(big.Int).SetBytes(crypto.Keccak256(common.LeftPadBytes(slot.Bytes(), 32)))
	base.Add(base, big.NewInt(int64(i)))
	base.And(base, bigVals[1007])
	return common.BigToHash(base)
}

func (r *jcRunner) vr(v jcVec, x jcExp) {
	slot := jcSlot(v.Slot)
	a := evmx.NewAsm().PushBytes(jcType[:]).PushBig(slot).Op(vm.VRJNAL)
	e, res := jcExec("London", tail(a), func(e *evmx.Env) {
		e.State.SetState(jcAcct, common.BigToHash(slot), common.BytesToHash(toBytes(x.Header)))
		for i, w := range x.Area {
			e.State.SetState(jcAcct, dataSlot(slot, i), common.BytesToHash(toBytes(w)))
		}
		_ = e.EVM.Tracer().SaveStateKey(jcAcct, nil, uint256.MustFromBig(slot), nil, jcType, common.Hash{}, []byte("s"))
	}, 5_000_000, nil)
	desc := fmt.Sprintf("VRJNAL slot %s enc %s len %d content %s", v.Slot, v.Enc, v.Len, v.Cpat)
	if res.Panic != "" {
		r.miss("jc.panic", "%s panicked: %s", desc, res.Panic)
		return
	}
	c, _ := e.EVM.Tracer().StateChanges().Slot(jcAcct, uint256.MustFromBig(slot), nil, jcType)
	got := renderChanges(c)
	if x.Err {
		if res.Err == nil || markerSet(e) {
			r.miss("jc.value", "%s: invalid string encoding accepted (journal %s)", desc, got)
		} else if res.Left != 0 {
			r.miss("jc.halt", "%s: malformed encoding returned %d gas: not an exceptional halt", desc, res.Left)
		}
		if got != "none" {
			r.miss("jc.value", "%s must record nothing, recorded %s", desc, got)
		}
		return
	}
	if res.Err != nil {
		r.miss("jc.value", "%s failed on a well-formed string: %v", desc, res.Err)
		r.miss("jc.invisible", "%s: well-formed operands, yet the instruction halted the frame: %v", desc, res.Err)
		return
	}
	want := fmt.Sprintf("0:[%s,] ", hex.EncodeToString(toBytes(x.Bytes)))
	if got != want {
		if len(got) > 300 {
			got = got[:300] + "..."
		}
		if len(want) > 300 {
			want = want[:300] + "..."
		}
		r.miss("jc.value", "%s recorded %s, the stored string is %s", desc, got, want)
	}
}

// vrseq: VRJNAL a, VRJNAL b, [assign a, VRJNAL a] in one transaction: every record keeps the content of its own moment
func (r *jcRunner) vrseq(v jcVec, x jcExp) {
	sa, sb := big.NewInt(5), big.NewInt(6)
	a := evmx.NewAsm()
	a.PushBytes(jcType[:]).PushBig(sa).Op(vm.VRJNAL)
	a.PushBytes(jcType[:]).PushBig(sb).Op(vm.VRJNAL)
	if v.Again {
		store := func(k common.Hash, w []int) {
			a.PushBytes(common.LeftPadBytes(toBytes(w), 32)).PushBytes(k[:]).Op(vm.SSTORE)
		}
		store(common.BigToHash(sa), x.A2.Header)
		for i, w := range x.A2.Area {
			store(dataSlot(sa, i), w)
		}
		a.PushBytes(jcType[:]).PushBig(sa).Op(vm.VRJNAL)
	}
	e, res := jcExec("London", tail(a), func(e *evmx.Env) {
		for _, p := range []struct {
			slot *big.Int
			st   jcStored
			name string
		}{{sa, x.A1, "a"}, {sb, x.B1, "b"}} {
			e.State.SetState(jcAcct, common.BigToHash(p.slot), common.BytesToHash(toBytes(p.st.Header)))
			for i, w := range p.st.Area {
				e.State.SetState(jcAcct, dataSlot(p.slot, i), common.BytesToHash(toBytes(w)))
			}
			_ = e.EVM.Tracer().SaveStateKey(jcAcct, nil, uint256.MustFromBig(p.slot), nil, jcType, common.Hash{}, []byte(p.name))
		}
	}, 8_000_000, nil)
	desc := fmt.Sprintf("VRJNAL a (%d bytes), VRJNAL b (%d bytes)", v.L1, v.L2)
	if v.Again {
		desc += fmt.Sprintf(", a reassigned (%d bytes), VRJNAL a", v.L3)
	}
	if res.Panic != "" {
		r.miss("jc.panic", "%s panicked: %s", desc, res.Panic)
		return
	}
	if res.Err != nil || !markerSet(e) {
		r.miss("jc.value", "%s failed on well-formed strings: %v", desc, res.Err)
		return
	}
	want := func(recs [][]int) string {
		s := "0:["
		for _, c := range recs {
			s += hex.EncodeToString(toBytes(c)) + ","
		}
		return s + "] "
	}
	sc := e.EVM.Tracer().StateChanges()
	for _, p := range []struct {
		name string
		recs [][]int
	}{{"a", x.RecA}, {"b", x.RecB}} {
		got := renderChanges(sc.Variable(jcAcct, p.name))
		if w := want(p.recs); got != w {
			if len(got) > 260 {
				got = got[:260] + "..."
			}
			if len(w) > 260 {
				w = w[:260] + "..."
			}
			r.miss("jc.value", "%s: variable %s has records %s, the contents at the moments of journaling were %s", desc, p.name, got, w)
		}
	}
}

// memory pattern byte (never zero)
func memPat(i int) byte { return byte(0x41 + i%0x3e) }

func (r *jcRunner) mem(v jcVec, x jcExp, workBound int) {
	ptr := opnd(v.Ptr)
	ln := opnd(v.Len)
	// memory image as the program builds it
	img := make([]byte, v.Msize)
	for i := range img {
		img[i] = memPat(i)
	}
	pre := evmx.NewAsm()
	pre.MStoreBytes(0, img)
	if ptr.IsInt64() && ptr.Int64()+32 <= int64(v.Msize) {
		lw := common.LeftPadBytes(ln.Bytes(), 32)
		pre.MStore32(uint64(ptr.Int64()), lw)
		copy(img[ptr.Int64():], lw)
	}
	// zero-extended reading of the argument
	zext := func(off *big.Int, n int) []byte {
		out := make([]byte, n)
		if off.IsInt64() {
			for i := 0; i < n; i++ {
				p := off.Int64() + int64(i)
				if p >= 0 && p < int64(len(img)) {
					out[i] = img[p]
				}
			}
		}
		return out
	}
	zLen := new(big.Int).SetBytes(zext(ptr, 32))
	var zName []byte
	zOK := zLen.IsInt64() && zLen.Int64() <= int64(workBound)
	if zOK {
		zName = zext(new(big.Int).Add(ptr, big.NewInt(32)), int(zLen.Int64()))
	}
	type form struct {
		name string
		emit func(a *evmx.Asm)
		nest bool
	}
	forms := []form{
		{"RSVJNAL", func(a *evmx.Asm) { a.PushBytes(jcType[:]).Push(11).PushBig(ptr).Op(vm.RSVJNAL) }, false},
		{"VSVJNAL", func(a *evmx.Asm) { a.PushBytes(jcType[:]).Push(0).Push(11).PushBig(ptr).Op(vm.VSVJNAL) }, false},
		{"IRVVJNAL", func(a *evmx.Asm) {
			a.PushBytes(jcPType[:]).PushBytes(jcType[:]).Push(0).PushBig(ptr).Push(11).Push(7).Op(vm.IRVVJNAL)
		}, true},
		{"IRVRJNAL", func(a *evmx.Asm) {
			a.PushBytes(jcPType[:]).PushBytes(jcType[:]).PushBig(ptr).Push(11).Push(7).Op(vm.IRVRJNAL)
		}, true},
	}
	for _, f := range forms {
		a := evmx.NewAsm().Raw(pre.Bytes()...)
		f.emit(a)
		// the instruction must not have changed memory size: store MSIZE
		a.Op(vm.MSIZE).Push(0x98).Op(vm.SSTORE)
		var m0, m1 runtime.MemStats
		runtime.ReadMemStats(&m0)
		e, res := jcExec("London", tail(a), func(e *evmx.Env) {
			if f.nest {
				_ = e.EVM.Tracer().SaveStateKey(jcAcct, nil, uint256.NewInt(7), nil, jcPType, common.Hash{}, []byte("parent"))
			}
		}, 3_000_000, nil)
		runtime.ReadMemStats(&m1)
		desc := fmt.Sprintf("%s with memory size %d, name pointer %v, length word %v", f.name, v.Msize, ptr, ln)
		// C20: whatever the length word says, the run (environment, program, instruction) allocates a bounded amount (this command is single-threaded)
		if alloc := m1.TotalAlloc - m0.TotalAlloc; x.AllocBound > 0 {
			if alloc > r.memAllocMax {
				r.memAllocMax = alloc
			}
			if alloc > uint64(x.AllocBound) {
				r.miss("jc.work", "%s: the run allocated %d bytes for the flat fee (bound %d)", desc, alloc, x.AllocBound)
			}
		}
		if res.Panic != "" {
			r.miss("jc.panic", "%s panicked: %s", desc, res.Panic)
			continue
		}
		sc := e.EVM.Tracer().StateChanges()
		find := func(name []byte) bool {
			if f.nest {
				return sc.FindKeyIndices(jcAcct, "parent", name) != nil
			}
			return sc.FindKeyIndices(jcAcct, string(name)) != nil
		}
		ok := res.Err == nil && markerSet(e)
		if ok {
			if ms := e.State.GetState(jcAcct, common.BigToHash(big.NewInt(0x98))); ms.Big().Int64() != int64(v.Msize) {
				r.miss("jc.invisible", "%s changed the memory size to %v", desc, ms.Big())
			}
		}
		switch x.Outcome {
		case "exact":
			name := img[ptr.Int64()+32 : ptr.Int64()+32+ln.Int64()]
			if !ok {
				r.miss("jc.mem", "%s: the argument lies inside memory but the instruction failed: %v", desc, res.Err)
			} else if !find(name) {
				r.miss("jc.mem", "%s: key is not registered under the name in memory %q", desc, name)
			}
		case "error":
			if ok {
				r.miss("jc.halt", "%s: the length word does not denote a name inside memory, yet the instruction succeeded instead of halting the frame", desc)
				r.miss("jc.work", "%s: a name of %v bytes was accepted for a flat fee", desc, ln)
			}
		case "either":
			if ok {
				if !zOK {
					r.miss("jc.work", "%s: accepted although the (zero-extended) length word is %v", desc, zLen)
				} else if !find(zName) {
					r.miss("jc.mem", "%s: accepted, but the key is not registered under the zero-extended memory content %q", desc, zName)
				}
			} else if res.Left != 0 {
				r.miss("jc.halt", "%s: refused but %d gas returned: not an exceptional halt", desc, res.Left)
			}
		}
	}
}

// inv: the same program with the journal instruction and with its operands popped instead
func (r *jcRunner) inv(v jcVec) {
	type opd struct {
		op   vm.OpCode
		pops int
		push func(a *evmx.Asm)
	}
	name := func(a *evmx.Asm) {
		a.MStore32(0xC0, []byte{2})
		a.MStoreBytes(0xE0, []byte("nm"))
	}
	ops := []opd{
		{vm.RSVJNAL, 3, func(a *evmx.Asm) { a.PushBytes(jcType[:]).Push(21).Push(0xC0) }},
		{vm.VSVJNAL, 4, func(a *evmx.Asm) { a.PushBytes(jcType[:]).Push(0).Push(22).Push(0xC0) }},
		{vm.IRVVJNAL, 6, func(a *evmx.Asm) { a.PushBytes(jcPType[:]).PushBytes(jcType[:]).Push(0).Push(0xC0).Push(23).Push(7) }},
		{vm.IRVRJNAL, 5, func(a *evmx.Asm) { a.PushBytes(jcPType[:]).PushBytes(jcType[:]).Push(0xC0).Push(24).Push(7) }},
		{vm.IVVVJNAL, 6, func(a *evmx.Asm) { a.PushBytes(jcPType[:]).PushBytes(jcType[:]).Push(0).Push(0x1234).Push(25).Push(7) }},
		{vm.IVVRJNAL, 5, func(a *evmx.Asm) { a.PushBytes(jcPType[:]).PushBytes(jcType[:]).Push(0x1234).Push(26).Push(7) }},
		{vm.VVJNAL, 4, func(a *evmx.Asm) { a.PushBytes(jcType[:]).Push(4).Push(2).Push(3) }},
		{vm.VRJNAL, 2, func(a *evmx.Asm) { a.PushBytes(jcType[:]).Push(5) }},
	}
	o := ops[v.Op]
	if v.Static && evmx.ForkIndex(v.Fork) < evmx.ForkIndex("Byzantium") {
		return // no static frames before Byzantium
	}
	build := func(withOp bool) []byte {
		a := evmx.NewAsm()
		name(a)
		a.Push(0x1111).Push(0x2222) // sentinels below the operands
		o.push(a)
		if withOp {
			a.Op(o.op)
		} else {
			for i := 0; i < o.pops; i++ {
				a.Op(vm.POP)
			}
		}
		// observable rest: sentinels, memory size, memory content, storage read
		a.Push(0x200).Op(vm.MSTORE).Push(0x220).Op(vm.MSTORE)
		a.Op(vm.MSIZE).Push(0x240).Op(vm.MSTORE)
		a.Push(3).Op(vm.SLOAD).Push(0x260).Op(vm.MSTORE)
		// every slot a journal instruction was given (variable, parent, packed, string) is read afterwards: were one of them left
		// warm in the EIP-2929 access list (or otherwise touched), the gas of these reads - and with it the measured fee - would
		// depend on the instruction, the fork and the state
		for _, sl := range []uint64{5, 7, 21, 22, 23, 24, 25, 26} {
			a.Push(sl).Op(vm.SLOAD, vm.POP)
		}
		if !v.Static {
			a.Push(0x77).Push(0x55).Op(vm.SSTORE)
			a.Push(0x20).Push(0xC0).Op(vm.LOG0)
		}
		a.Push(0x280).Push(0).Op(vm.RETURN)
		return a.Bytes()
	}
	wrapper := common.HexToAddress("0x00000000000000000000000000000000000000bb")
	run := func(withOp bool) (res evmx.Result, root common.Hash, logs int, e *evmx.Env) {
		e = evmx.NewEnv(evmx.EnvOpts{Fork: v.Fork})
		e.State.SetCode(jcAcct, build(withOp))
		e.State.SetNonce(jcAcct, 1)
		e.State.SetState(jcAcct, common.BigToHash(big.NewInt(3)), common.HexToHash("0x0102030405060708090a0b0c0d0e0f101112131415161718191a1b1c1d1e1f20"))
		e.State.SetState(jcAcct, common.BigToHash(big.NewInt(5)), common.BytesToHash(append([]byte("hello"), append(make([]byte, 26), 10)...)))
		tr := e.EVM.Tracer()
		_ = tr.SaveStateKey(jcAcct, nil, uint256.NewInt(7), nil, jcPType, common.Hash{}, []byte("parent"))
		_ = tr.SaveStateKey(jcAcct, nil, uint256.NewInt(3), uint256.NewInt(2), jcType, common.Hash{}, []byte("packed"))
		_ = tr.SaveStateKey(jcAcct, nil, uint256.NewInt(5), nil, jcType, common.Hash{}, []byte("str"))
		to := jcAcct
		if v.Static {
			// wrapper: STATICCALL(gas, target, 0,0, 0,0x280) ; return(0,0x280) with the success flag at 0x280
			w := evmx.NewAsm().Push(0x280).Push(0).Push(0).Push(0).PushAddr(jcAcct).Op(vm.GAS, vm.STATICCALL)
			w.Push(0x280).Op(vm.MSTORE).Push(0x2a0).Push(0).Op(vm.RETURN)
			e.State.SetCode(wrapper, w.Bytes())
			to = wrapper
		}
		e.Prepare(&to)
		e.EVM.IsExecuteJP = false
		res = e.Call(e.Origin, to, nil, 2_000_000, big.NewInt(0))
		// observable state of the account (the code differs between the two programs, so not the state root)
		h := crypto.NewKeccakState()
		for _, sl := range []int64{3, 5, 7, 0x55, 0x98, 0x99} {
			v := e.State.GetState(jcAcct, common.BigToHash(big.NewInt(sl)))
			h.Write(v[:])
		}
		h.Write(e.State.GetBalance(jcAcct).Bytes())
		h.Write([]byte{byte(e.State.GetNonce(jcAcct))})
		for _, l := range e.State.Logs() {
			h.Write(l.Address[:])
			h.Write(l.Data)
		}
		h.Read(root[:])
		logs = len(e.State.Logs())
		return
	}
	r1, root1, logs1, _ := run(true)
	r2, root2, logs2, _ := run(false)
	desc := fmt.Sprintf("%s on %s (static=%v)", o.op, v.Fork, v.Static)
	if r1.Panic != "" {
		r.miss("jc.panic", "%s panicked: %s", desc, r1.Panic)
		return
	}
	if r2.Err != nil || r2.Panic != "" {
		r.miss("jc.setup", "%s: reference program (pops) failed: %v %s", desc, r2.Err, r2.Panic)
		return
	}
	if r1.Err != nil {
		r.miss("jc.invisible", "%s: program with the journal instruction failed (%v) where the program with pops succeeds", desc, r1.Err)
		return
	}
	if !bytes.Equal(r1.Ret, r2.Ret) {
		r.miss("jc.invisible", "%s: return data (stack sentinels, memory size, memory, storage read) differs from the program with pops:\n %x\n %x", desc, r1.Ret, r2.Ret)
	}
	if root1 != root2 || logs1 != logs2 {
		r.miss("jc.invisible", "%s: post-state or logs differ from the program with pops (roots %x / %x, logs %d / %d)", desc, root1, root2, logs1, logs2)
	}
	// fee: left2 - left1 = fee - 2*pops  (POP costs 2). In a static wrapper 63/64 forwarding scales the difference: measure inside via the callee only
	diff := int64(r2.Left) - int64(r1.Left)
	if !v.Static {
		fee := diff + int64(2*o.pops)
		if fee <= 0 {
			r.miss("jc.fee", "%s: the journal instruction costs %d gas: not a positive fee", desc, fee)
		}
		r.fees[fmt.Sprintf("%s/%s", o.op, v.Fork)] = uint64(fee)
	} else if diff <= 0 {
		r.miss("jc.fee", "%s: the journal instruction is not charged in a static frame", desc)
	} else {
		// gas that the callee does not use comes back in full, so the difference seen by the wrapper is the callee's difference
		r.fees[fmt.Sprintf("%s/%s/static", o.op, v.Fork)] = uint64(diff + int64(2*o.pops))
	}
}

func (r *jcRunner) vrbig(v jcVec) {
	lens := map[int]uint64{1: 1 << 10, 2: 1 << 16, 3: 1 << 20, 4: 1 << 32}
	L := lens[v.Cls]
	if v.Cls == 4 {
		return // 2^27 state reads and a 4 GB buffer: the same finding as class 3, not worth the machine
	}
	slot := big.NewInt(5)
	hdr := new(big.Int).SetUint64(2*L + 1)
	a := evmx.NewAsm().PushBytes(jcType[:]).PushBig(slot).Op(vm.VRJNAL)
	var cs *evmx.CountingState
	e, res := jcExec("London", tail(a), func(e *evmx.Env) {
		e.State.SetState(jcAcct, common.BigToHash(slot), common.BigToHash(hdr))
		_ = e.EVM.Tracer().SaveStateKey(jcAcct, nil, uint256.MustFromBig(slot), nil, jcType, common.Hash{}, []byte("s"))
	}, 10_000_000, func(s vm.StateDB) vm.StateDB { cs = &evmx.CountingState{StateDB: s}; return cs })
	_ = e
	if res.Panic != "" {
		r.miss("jc.panic", "VRJNAL on a string header claiming %d bytes panicked: %s", L, res.Panic)
		return
	}
	used := 10_000_000 - res.Left
	r.work = append(r.work, fmt.Sprintf("VRJNAL len=%d reads=%d gasUsed=%d ok=%v", L, cs.Reads, used, res.Err == nil))
	// a flat-fee instruction may touch a handful of slots ("several slots"): 1 header + 16 data words
	if res.Err == nil && cs.Reads > 1+16+2 {
		r.miss("jc.work", "VRJNAL with a stored string header claiming %d bytes performed %d state reads and journaled %d bytes for %d gas in total", L, cs.Reads, L, used)
	}
}

// stk: the opcode with `height` words on the stack (all zero)
func (r *jcRunner) stk(v jcVec, x jcExp) {
	a := evmx.NewAsm()
	for i := 0; i < v.Height; i++ {
		a.Push(0)
	}
	a.Op(vm.OpCode(0xe0 + v.Op))
	_, res := jcExec("London", tail(a), nil, 1_000_000, nil)
	desc := fmt.Sprintf("%s with %d words on the stack", vm.OpCode(0xe0+v.Op), v.Height)
	if res.Panic != "" {
		r.miss("jc.panic", "%s panicked: %s", desc, res.Panic)
		return
	}
	under := res.Err != nil && strings.HasPrefix(res.Err.Error(), "stack underflow")
	if x.Underflow && !under {
		r.miss("jc.halt", "%s: fewer operands than the instruction takes, but no stack underflow (err = %v)", desc, res.Err)
	}
	if !x.Underflow && under {
		r.miss("jc.halt", "%s: enough operands, yet a stack underflow was reported", desc)
	}
}

type jcReport struct {
	Vectors    int                     `json:"histories"`
	Nontrivial int                     `json:"nontrivial"`
	ByKind     map[string]int          `json:"byKind"`
	ByComp     map[string]int          `json:"byComp"`
	Samples    map[string][]jcMismatch `json:"samples"`
	Example    []json.RawMessage       `json:"example"`
	ParseErr   int                     `json:"parseErrors"`
	Fees       map[string]uint64       `json:"fees"`
	Work       []string                `json:"work"`
}

func codecCmd(args []string) int {
	fs := flag.NewFlagSet("codec", flag.ExitOnError)
	out := fs.String("out", "", "report file")
	one := fs.String("one", "", "replay one vector (json file, possibly wrapped in a replay record)")
	maxSamples := fs.Int("samples", 4, "samples per component")
	workBound := fs.Int("workbound", 8192, "bytes a flat-fee instruction may copy")
	_ = fs.Parse(args)
	r := &jcRunner{fees: map[string]uint64{}}
	runOne := func(l *jcLine) {
		switch l.V.K {
		case "vv":
			r.vv(l.V, l.E)
		case "vr":
			r.vr(l.V, l.E)
		case "mem":
			r.mem(l.V, l.E, *workBound)
		case "inv":
			r.inv(l.V)
		case "vrbig":
			r.vrbig(l.V)
		case "stk":
			r.stk(l.V, l.E)
		case "vrseq":
			r.vrseq(l.V, l.E)
		}
	}
	if *one != "" {
		raw, err := os.ReadFile(*one)
		if err != nil {
			fmt.Fprintln(os.Stderr, err)
			return 2
		}
		var wrap struct {
			Replay *struct {
				Vector json.RawMessage `json:"vector"`
			} `json:"replay"`
		}
		if json.Unmarshal(raw, &wrap) == nil && wrap.Replay != nil && wrap.Replay.Vector != nil {
			raw = wrap.Replay.Vector
		}
		l := &jcLine{}
		if err := json.Unmarshal(raw, l); err != nil {
			fmt.Fprintln(os.Stderr, err)
			return 2
		}
		runOne(l)
		for _, m := range r.out {
			fmt.Printf("MISMATCH %s: %s\n", m.Comp, m.Detail)
		}
		if len(r.out) > 0 {
			return 1
		}
		fmt.Println("conforms")
		return 0
	}
	rep := &jcReport{ByComp: map[string]int{}, Samples: map[string][]jcMismatch{}, ByKind: map[string]int{}}
	sc := bufio.NewScanner(os.Stdin)
	sc.Buffer(make([]byte, 1<<20), 64<<20)
	for sc.Scan() {
		t := sc.Text()
		if !strings.HasPrefix(t, `"JC `) {
			fmt.Println(t)
			continue
		}
		body := t[4 : len(t)-1]
		body = strings.ReplaceAll(body, `\"`, `"`)
		body = strings.ReplaceAll(body, `\\`, `\`)
		l := &jcLine{}
		if err := json.Unmarshal([]byte(body), l); err != nil {
			rep.ParseErr++
			continue
		}
		n0 := len(r.out)
		runOne(l)
		rep.Vectors++
		rep.Nontrivial++
		rep.ByKind[l.V.K]++
		seen := map[string]bool{}
		for _, m := range r.out[n0:] {
			if !seen[m.Comp] {
				seen[m.Comp] = true
				rep.ByComp[m.Comp]++
				if len(rep.Samples[m.Comp]) < *maxSamples {
					m.Vector = json.RawMessage(body)
					rep.Samples[m.Comp] = append(rep.Samples[m.Comp], m)
				}
			}
		}
		if len(rep.Example) < 3 && (l.V.K == "vr" && l.V.Len == 40 || l.V.K == "vv" && l.V.Off == 3 && l.V.W == 8) {
			rep.Example = append(rep.Example, json.RawMessage(body))
		}
	}
	rep.Fees = r.fees
	if r.memAllocMax > 0 {
		r.work = append(r.work, fmt.Sprintf("memory-argument vectors: largest allocation of a run %d bytes", r.memAllocMax))
	}
	rep.Work = r.work
	fmt.Printf("JC-DONE vectors=%d mismatching-components=%d\n", rep.Vectors, len(rep.ByComp))
	if *out != "" {
		raw, _ := json.MarshalIndent(rep, "", " ")
		if err := os.WriteFile(*out, raw, 0o644); err != nil {
			fmt.Fprintln(os.Stderr, err)
			return 2
		}
	}
	return 0
}
