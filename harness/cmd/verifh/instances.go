package main

// verifh instances: replays interleavings emitted by spec/InstancesScn.tla on real EVM instances running in
// goroutines whose progress is gated in the debug tracer's CaptureState callback (C16, C17), and compares each
// instance's complete observable outcome with what the same instance produces when it runs alone.

import (
	"bufio"
	"crypto/sha256"
	"encoding/hex"
	"encoding/json"
	"flag"
	"fmt"
	"math/big"
	"os"
	"reflect"
	"sort"
	"strings"
	"sync"
	"sync/atomic"
	"time"

	"github.com/artela-network/artela-evm/vm"
	"github.com/ethereum/go-ethereum/common"
	"github.com/ethereum/go-ethereum/crypto"
	"github.com/holiman/uint256"
	"verif/harness/evmx"
)

type inAct struct {
	I int    `json:"i"`
	A string `json:"a"`
}
type inBeh struct {
	Hist      []inAct    `json:"hist"`
	Want      []int      `json:"want"`
	Tx        []string   `json:"tx"`
	Res       []string   `json:"res"`
	Cancelled []bool     `json:"cancelled"`
	Wattr     [][]int    `json:"wattr"`
	Rres      [][]string `json:"rres"`
}

var (
	inMain  = common.HexToAddress("0x00000000000000000000000000000000000000aa")
	inOther = common.HexToAddress("0x00000000000000000000000000000000000000bb")
	// inZ registers two variables of different types at one (slot, offset) and then journals a value there under the zero type id:
	// nothing is registered under that type, so the frame must halt - every time, whatever the iteration order of the maps involved
	inZ = common.HexToAddress("0x00000000000000000000000000000000000000bc")
)

// inMainOf: transactions W and R (context writer) run in a contract whose address is the instance's own, so that a context write
// attributed to another instance shows; A and B use one address.
func inMainOf(tx string, idx int) common.Address {
	if tx == "W" || tx == "R" {
		return common.BytesToAddress([]byte{0xa0 + byte(idx)})
	}
	return inMain
}

func inFork(tx string) string {
	if tx == "W" || tx == "R" {
		return "Berlin" // 0x66 exists from Berlin on
	}
	return "Constantinople"
}

// inCode builds the transaction program: `steps` iterations, each starting with a JUMPDEST (where the gate parks the
// instance) and ending with a JUMP (where the interpreter polls the abort flag). Iteration 1 executes the probe PUSH0.
func inCode(steps int, tx string) []byte {
	a := evmx.NewAsm()
	v := uint64(0x11)
	if tx == "B" || tx == "R" {
		v = 0x22
	}
	_, wpay := pcCanonical("write")
	for k := 1; k <= steps; k++ {
		a.Label(fmt.Sprintf("it%d", k))
		if k == 1 {
			// opcodes whose price EIP-1884 changes on this (pre-Istanbul) fork, then the opcode EIP-3855 adds
			a.Push(1).Op(vm.SLOAD, vm.POP, vm.ADDRESS, vm.BALANCE, vm.POP, vm.ADDRESS, vm.EXTCODEHASH, vm.POP)
			a.Op(vm.PUSH0, vm.POP)
			// a long string at slot 0 (40 bytes: header 81, data at keccak(0)) and a short one at slot 1, both journaled
			a.Push(81).Push(0).Op(vm.SSTORE)
			d0 := new(big.Int).SetBytes(crypto.Keccak256(make([]byte, 32)))
			a.PushBytes(bytesRepeat(byte(v), 32)).PushBig(d0).Op(vm.SSTORE)
			a.PushBytes(append(bytesRepeat(byte(v+1), 8), make([]byte, 24)...)).PushBig(new(big.Int).Add(d0, big.NewInt(1))).Op(vm.SSTORE)
			a.PushBytes(append([]byte("hi"), append(make([]byte, 29), 4)...)).Push(1).Op(vm.SSTORE)
			a.MStore32(0x140, []byte{1})
			a.MStoreBytes(0x160, []byte("s"))
			a.PushBytes(jcType[:]).Push(0).Push(0x140).Op(vm.RSVJNAL)
			a.PushBytes(jcType[:]).Push(0).Op(vm.VRJNAL)
			a.MStoreBytes(0x160, []byte("t"))
			a.PushBytes(jcType[:]).Push(1).Push(0x140).Op(vm.RSVJNAL)
			a.PushBytes(jcType[:]).Push(1).Op(vm.VRJNAL)
			a.Push(0).Push(0).Push(0).Push(0).Push(0).PushAddr(inZ).Push(60000).Op(vm.CALL, vm.POP)
			// register a mapping "m" at slot 7 and three members, journal their values
			a.MStore32(0xC0, []byte{1})
			a.MStoreBytes(0xE0, []byte("m"))
			a.PushBytes(jcPType[:]).Push(7).Push(0xC0).Op(vm.RSVJNAL)
			for m := uint64(1); m <= 3; m++ {
				a.PushBytes(jcPType[:]).PushBytes(jcType[:]).Push(0).Push(m).Push(20 + m).Push(7).Op(vm.IVVVJNAL)
				a.Push(v + m).Push(20 + m).Op(vm.SSTORE)
				a.PushBytes(jcType[:]).Push(32).Push(0).Push(20 + m).Op(vm.VVJNAL)
			}
		} else if tx == "W" {
			// a context write by CALL; the success flag goes into a log
			a.MStoreBytes(0x200, wpay)
			a.Push(0).Push(0).Push(uint64(len(wpay))).Push(0x200).Push(0).PushAddr(pcWrite).Push(100000).Op(vm.CALL)
			a.Push(0).Op(vm.MSTORE).Push(32).Push(0).Op(vm.LOG0)
		} else if tx == "R" {
			// the three other call kinds on the context writer: each must be refused whatever ran before in this process
			a.MStoreBytes(0x200, wpay)
			a.Push(0).Push(0).Push(uint64(len(wpay))).Push(0x200).PushAddr(pcWrite).Push(100000).Op(vm.STATICCALL)
			a.Push(0).Push(0).Push(uint64(len(wpay))).Push(0x200).PushAddr(pcWrite).Push(100000).Op(vm.DELEGATECALL)
			a.Push(2).Op(vm.MUL, vm.ADD)
			a.Push(0).Push(0).Push(uint64(len(wpay))).Push(0x200).Push(0).PushAddr(pcWrite).Push(100000).Op(vm.CALLCODE)
			a.Push(4).Op(vm.MUL, vm.ADD)
			a.Push(0).Op(vm.MSTORE).Push(32).Push(0).Op(vm.LOG0)
		} else {
			// a nested call with value and a log
			a.Push(0).Push(0).Push(0).Push(0).Push(1).PushAddr(inOther).Op(vm.GAS, vm.CALL, vm.POP)
			a.Push(v + uint64(k)).Push(0).Op(vm.MSTORE).Push(32).Push(0).Op(vm.LOG0)
		}
		next := fmt.Sprintf("it%d", k+1)
		if k == steps {
			next = "fin"
		}
		a.PushLabel(next).Op(vm.JUMP)
	}
	a.Label("fin")
	a.Push(v).Push(0).Op(vm.MSTORE).Push(32).Push(0).Op(vm.RETURN)
	return a.Bytes()
}

func inZCode() []byte {
	a := evmx.NewAsm()
	a.MStore32(0x140, []byte{1})
	a.MStoreBytes(0x160, []byte("a"))
	a.PushBytes(jcType[:]).Push(5).Push(0x140).Op(vm.RSVJNAL)
	a.MStoreBytes(0x160, []byte("b"))
	a.PushBytes(jcPType[:]).Push(5).Push(0x140).Op(vm.RSVJNAL)
	a.Push(0x33).Push(5).Op(vm.SSTORE)
	a.Push(0).Push(32).Push(0).Push(5).Op(vm.VVJNAL) // type id 0
	a.Op(vm.STOP)
	return a.Bytes()
}

func bytesRepeat(b byte, n int) []byte {
	out := make([]byte, n)
	for i := range out {
		out[i] = b
	}
	return out
}

type inGate struct {
	grant  chan struct{}
	parked chan struct{}
	free   bool
	first  map[int]int // depth -> stack length seen at the first step of a frame
	depth0 []int
}

// inTracer parks the instance at every JUMPDEST of the top frame until the scheduler grants a step.
type inTracer struct {
	g          *inGate
	started    bool
	entryStack []int
	prices     []string // price charged for the opcodes an extra EIP may reprice
}

func (t *inTracer) CaptureTxStart(uint64) {}
func (t *inTracer) CaptureTxEnd(uint64)   {}
func (t *inTracer) CaptureStart(env *vm.EVM, from, to common.Address, create bool, input []byte, gas uint64, value *big.Int) {
}
func (t *inTracer) CaptureEnd([]byte, uint64, error) {}
func (t *inTracer) CaptureEnter(vm.OpCode, common.Address, common.Address, []byte, uint64, *big.Int) {
}
func (t *inTracer) CaptureExit([]byte, uint64, error) {}
func (t *inTracer) CaptureFault(uint64, vm.OpCode, uint64, uint64, *vm.ScopeContext, int, error) {
}
func (t *inTracer) CaptureState(pc uint64, op vm.OpCode, gas, cost uint64, scope *vm.ScopeContext, rData []byte, depth int, err error) {
	if pc == 0 {
		t.entryStack = append(t.entryStack, len(scope.Stack.Data()))
	}
	if op == vm.SLOAD || op == vm.BALANCE || op == vm.EXTCODESIZE || op == vm.EXTCODEHASH {
		t.prices = append(t.prices, fmt.Sprintf("%s=%d", op, cost))
	}
	if t.g.free || depth != 1 || op != vm.JUMPDEST || err != nil {
		return
	}
	t.g.parked <- struct{}{}
	<-t.g.grant
}

// the second gate: inside EVM.Call on 0x66, after the caller was attached and before the precompile runs
func (g *inGate) atTransfer(from, to common.Address) {
	if g.free || to != pcWrite {
		return
	}
	g.parked <- struct{}{}
	<-g.grant
}

type inResult struct {
	Class            string
	Digest           string
	Detail           string
	Closed           bool
	Panic            string
	EntryStacksClean bool
	WriteBy          []string // addresses the host saw context writes attributed to
	RFlags           []int    // tx R: success flags of STATICCALL (1) / DELEGATECALL (2) / CALLCODE (4) on 0x66, per iteration
}

func inDigest(e *evmx.Env, res evmx.Result, prices []string, main common.Address) (string, string) {
	var sb strings.Builder
	fmt.Fprintf(&sb, "prices=%v;", prices)
	for _, l := range e.State.Logs() {
		fmt.Fprintf(&sb, "log=%x;", l.Data)
	}
	for _, c := range e.Host.Calls {
		fmt.Fprintf(&sb, "host=%s/%s/%s/%s;", c.Kind, c.Addr, c.Key, c.Value)
	}
	fmt.Fprintf(&sb, "ret=%x left=%d err=%v root=%x logs=%d;", res.Ret, res.Left, res.Err, e.State.IntermediateRoot(true), len(e.State.Logs()))
	j, _ := json.Marshal(evmx.DumpTree(e.EVM.Tracer()))
	sb.Write(j)
	sc := e.EVM.Tracer().StateChanges()
	// order-sensitive answers of the query API (C16: "including the order of elements in the returned lists")
	if k := sc.FindKeyIndices(main, "m"); k != nil {
		fmt.Fprintf(&sb, ";kids=%q", k.ChildrenIndices())
		for _, c := range k.Children() {
			fmt.Fprintf(&sb, ",%v", c.Slot())
		}
	}
	fmt.Fprintf(&sb, ";ioc=%q", sc.IndicesOfChanges(main, "m"))
	for m := uint64(1); m <= 3; m++ {
		c, _ := sc.Slot(main, uint256.NewInt(20+m), nil, jcType)
		fmt.Fprintf(&sb, ";s%d=%s", m, renderChanges(c))
	}
	fmt.Fprintf(&sb, ";str0=%s;str1=%s", renderChanges(sc.Variable(main, "s")), renderChanges(sc.Variable(main, "t")))
	fmt.Fprintf(&sb, ";za=%s;zb=%s", renderChanges(sc.Variable(inZ, "a")), renderChanges(sc.Variable(inZ, "b")))
	fmt.Fprintf(&sb, ";bal=%s/%s", renderChanges(sc.Balance(main)), renderChanges(sc.Balance(inOther)))
	h := sha256.Sum256([]byte(sb.String()))
	return hex.EncodeToString(h[:8]), sb.String()
}

type inInstance struct {
	want  int
	tx    string
	env   *evmx.Env
	gate  *inGate
	tr    *inTracer
	done  chan inResult
	steps int
	idx   int
	main  common.Address
}

func newInstance(want int, tx string, steps int, free bool, idx int) *inInstance {
	in := &inInstance{want: want, tx: tx, steps: steps, done: make(chan inResult, 1), idx: idx, main: inMainOf(tx, idx)}
	in.gate = &inGate{grant: make(chan struct{}), parked: make(chan struct{}), free: free}
	in.tr = &inTracer{g: in.gate}
	return in
}

// construct builds the EVM (NewEVM -> NewEVMInterpreter: pick / copy / enable)
func inWantEips(mask int) []int {
	l := []int{}
	if mask != 0 {
		l = append(l, 9999)
	}
	if mask&1 != 0 {
		l = append(l, 3855)
	}
	if mask&2 != 0 {
		l = append(l, 1884)
	}
	return l[:len(l):len(l)]
}

var (
	inSharedEips    = [4][]int{inWantEips(0), inWantEips(1), inWantEips(2), inWantEips(3)}
	inEipsClobbered atomic.Value
)

func (in *inInstance) construct() {
	// every instance with the same mask is built from the same Config.ExtraEips slice, as a host that keeps one vm.Config does;
	// the list starts with an EIP number the VM does not know (skipped at construction), so that the list the interpreter keeps
	// differs from the list it was given
	eips := inSharedEips[in.want&3]
	in.env = evmx.NewEnvWithTracer(evmx.EnvOpts{Fork: inFork(in.tx), ExtraEips: eips, ShareEips: true}, in.tr)
	if w := inWantEips(in.want & 3); !reflect.DeepEqual(eips, w) {
		inEipsClobbered.Store(fmt.Sprintf("constructing an EVM (extra EIPs mask %d) rewrote the caller's Config.ExtraEips: %v, given %v", in.want&3, eips, w))
		copy(eips, w)
	}
	in.env.OnTransfer = in.gate.atTransfer
	st := in.env.State
	st.SetCode(in.main, inCode(in.steps, in.tx))
	st.SetNonce(in.main, 1)
	st.SetBalance(in.main, big.NewInt(10))
	st.SetCode(inOther, []byte{byte(vm.STOP)})
	st.SetNonce(inOther, 1)
	st.SetCode(inZ, inZCode())
	st.SetNonce(inZ, 1)
	in.env.EVM.IsExecuteJP = false
}

func (in *inInstance) run() {
	to := in.main
	in.env.Prepare(&to)
	res := in.env.Call(in.env.Origin, in.main, []byte{1}, 3_000_000, big.NewInt(0))
	r := inResult{Panic: res.Panic}
	switch {
	case res.Panic != "":
		r.Class = "panic"
	case res.Err != nil && strings.HasPrefix(res.Err.Error(), "invalid opcode"):
		r.Class = "invalid"
	case res.Err == nil && len(res.Ret) == 0 && in.env.EVM.Cancelled():
		r.Class = "cancelled"
	case res.Err == nil:
		r.Class = "ok"
	default:
		r.Class = "err:" + res.Err.Error()
	}
	r.Digest, r.Detail = inDigest(in.env, res, in.tr.prices, in.main)
	for _, c := range in.env.Host.Calls {
		if c.Kind == "write" {
			r.WriteBy = append(r.WriteBy, c.Addr)
		}
	}
	for _, l := range in.env.State.Logs() {
		if in.tx == "R" && len(l.Data) == 32 {
			r.RFlags = append(r.RFlags, int(l.Data[31]))
		}
	}
	r.Closed = in.env.EVM.Tracer().CallTree().Current() == nil
	r.EntryStacksClean = true
	for _, n := range in.tr.entryStack {
		if n != 0 {
			r.EntryStacksClean = false
		}
	}
	in.done <- r
}

// solo runs one configuration alone and returns its result.
func inSolo(want int, tx string, steps int, idx int) inResult {
	in := newInstance(want, tx, steps, true, idx)
	in.construct()
	go in.run()
	return <-in.done
}

func inSoloKey(want int, tx string, idx int) string {
	if tx == "A" || tx == "B" {
		idx = 0
	}
	return fmt.Sprintf("%d/%s/%d", want, tx, idx)
}

type inMismatch = jcMismatch

func inReplay(b *inBeh, steps int, solo map[string]inResult) (out []inMismatch) {
	miss := func(comp, f string, a ...interface{}) {
		out = append(out, inMismatch{Comp: comp, Detail: fmt.Sprintf(f, a...)})
	}
	n := len(b.Want)
	ins := make([]*inInstance, n)
	for i := range ins {
		ins[i] = newInstance(b.Want[i], b.Tx[i], steps, false, i+1)
	}
	finished := make([]*inResult, n)
	waitPark := func(i int) bool { // true: parked at a gate; false: finished
		select {
		case <-ins[i].gate.parked:
			return true
		case r := <-ins[i].done:
			finished[i] = &r
			return false
		case <-time.After(20 * time.Second):
			miss("in.hang", "instance %d neither reached its next gate nor finished within 20 s", i+1)
			return false
		}
	}
	parked := make([]bool, n)
	constructed := make([]bool, n)
	for _, act := range b.Hist {
		i := act.I - 1
		switch act.A {
		case "pick", "copy":
			// no effect outside the instance; the constructor runs where the model makes it visible
			if act.A == "copy" && b.Want[i] == 0 {
				continue
			}
		case "enable":
			ins[i].construct()
			constructed[i] = true
		case "start":
			if !constructed[i] {
				ins[i].construct()
				constructed[i] = true
			}
			go ins[i].run()
			parked[i] = waitPark(i)
		case "step", "wset":
			// wset: from the JUMPDEST gate to the gate inside EVM.Call on 0x66; step: from whichever gate to the next JUMPDEST (or the end)
			if finished[i] != nil || !parked[i] {
				continue // the real instance has already ended (its last gate is behind it)
			}
			ins[i].gate.grant <- struct{}{}
			parked[i] = waitPark(i)
		case "cancel":
			if !constructed[i] {
				ins[i].construct()
				constructed[i] = true
			}
			ins[i].env.EVM.Cancel()
		}
	}
	// release whatever is still parked (the model's last step may end before the real program's final block)
	for i := range ins {
		for finished[i] == nil && parked[i] {
			ins[i].gate.grant <- struct{}{}
			parked[i] = waitPark(i)
		}
		if finished[i] == nil {
			select {
			case r := <-ins[i].done:
				finished[i] = &r
			case <-time.After(20 * time.Second):
				miss("in.hang", "instance %d did not finish", i+1)
			}
		}
	}
	for i := range ins {
		r := finished[i]
		if r == nil {
			continue
		}
		desc := fmt.Sprintf("instance %d (extra EIPs mask %d [1=3855 2=1884], tx %s) in schedule %v", i+1, b.Want[i], b.Tx[i], b.Hist)
		if r.Panic != "" {
			miss("in.panic", "%s panicked: %s", desc, r.Panic)
			continue
		}
		if !r.Closed {
			miss("in.closed", "%s: call-tree cursor not at rest afterwards", desc)
		}
		if !r.EntryStacksClean {
			miss("in.pool", "%s: a frame started with a non-empty stack (stack pool handed out a dirty stack)", desc)
		}
		if r.Class != b.Res[i] {
			if b.Res[i] == "cancelled" || r.Class == "cancelled" {
				miss("in.cancel", "%s ended as %q, the model (Cancel at that point) says %q", desc, r.Class, b.Res[i])
			} else {
				miss("in.isolation", "%s ended as %q, alone it ends as %q", desc, r.Class, b.Res[i])
			}
			continue
		}
		if r.Class == "cancelled" {
			continue
		}
		own := fmt.Sprintf("%x", ins[i].main[:])
		for _, by := range r.WriteBy {
			if by != own {
				miss("in.isolation", "%s: a context write of this instance's contract %s reached the host attributed to %s", desc, own, by)
				break
			}
		}
		for _, f := range r.RFlags {
			if f != 0 {
				miss("in.isolation", "%s: STATICCALL/DELEGATECALL/CALLCODE on the context writer succeeded (flag mask %d): it depends on what ran before in this process", desc, f)
				break
			}
		}
		s, have := solo[inSoloKey(b.Want[i], b.Tx[i], i+1)]
		if !have {
			fmt.Fprintf(os.Stderr, "harness: no solo run for configuration %s\n", inSoloKey(b.Want[i], b.Tx[i], i+1))
			os.Exit(2)
		}
		if r.Digest != s.Digest {
			miss("in.isolation", "%s: observable outcome differs from the same instance running alone:\n  here : %s\n  alone: %s", desc, r.Detail, s.Detail)
		}
	}
	return
}

func instancesCmd(args []string) int {
	fs := flag.NewFlagSet("instances", flag.ExitOnError)
	out := fs.String("out", "", "report file")
	steps := fs.Int("steps", 2, "MaxSteps of the model")
	reps := fs.Int("reps", 5, "solo repetitions per configuration (determinism)")
	every := fs.Int("every", 1, "replay every k-th behaviour")
	freeN := fs.Int("free", 0, "additionally run this many free-running concurrent rounds of 8 instances")
	maxSamples := fs.Int("samples", 4, "samples per component")
	_ = fs.Parse(args)
	rep := &jcReport{ByComp: map[string]int{}, Samples: map[string][]jcMismatch{}, ByKind: map[string]int{}}
	add := func(ms []inMismatch, body string) {
		seen := map[string]bool{}
		for _, m := range ms {
			if !seen[m.Comp] {
				seen[m.Comp] = true
				rep.ByComp[m.Comp]++
				if len(rep.Samples[m.Comp]) < *maxSamples {
					m.Vector = json.RawMessage(body)
					rep.Samples[m.Comp] = append(rep.Samples[m.Comp], m)
				}
			}
		}
	}
	// determinism: every configuration alone, several times, interleaved with the other configurations
	solo := map[string]inResult{}
	var keys []string
	// the context-writer transactions first, readers before writers: a reader's first solo run sees a process in which nothing has run yet
	for _, tx := range []string{"R", "W"} {
		for _, w := range []int{0, 1, 2, 3} {
			for idx := 1; idx <= 2; idx++ {
				keys = append(keys, inSoloKey(w, tx, idx))
			}
		}
	}
	for _, w := range []int{0, 1, 2, 3} {
		for _, tx := range []string{"A", "B"} {
			keys = append(keys, inSoloKey(w, tx, 0))
		}
	}
	for r := 0; r < *reps; r++ {
		for _, k := range keys {
			var w, idx int
			var tx string
			fmt.Sscanf(strings.ReplaceAll(k, "/", " "), "%d %s %d", &w, &tx, &idx)
			res := inSolo(w, tx, *steps, idx)
			rep.ByKind["solo"]++
			if first, ok := solo[k]; !ok {
				solo[k] = res
			} else if first.Digest != res.Digest {
				add([]inMismatch{{Comp: "in.determinism", Detail: fmt.Sprintf("the same transaction (extra EIPs mask %d, tx %s) on equal pre-state gave different observable outcomes in run 1 and run %d:\n  %s\n  %s", w, tx, r+1, first.Detail, res.Detail)}},
					fmt.Sprintf(`{"config":"%s","repetition":%d}`, k, r+1))
			}
		}
	}
	for _, k := range keys {
		want := "invalid"
		if strings.HasPrefix(k, "1") || strings.HasPrefix(k, "3") {
			want = "ok"
		}
		if solo[k].Class != want {
			fmt.Fprintf(os.Stderr, "harness: solo run %s ended as %s, expected %s: %s\n", k, solo[k].Class, want, solo[k].Detail)
			return 2
		}
	}
	sc := bufio.NewScanner(os.Stdin)
	sc.Buffer(make([]byte, 1<<20), 64<<20)
	nb := 0
	for sc.Scan() {
		t := sc.Text()
		if !strings.HasPrefix(t, `"IN `) {
			fmt.Println(t)
			continue
		}
		nb++
		if *every > 1 && nb%*every != 0 {
			continue
		}
		body := t[4 : len(t)-1]
		body = strings.ReplaceAll(body, `\"`, `"`)
		body = strings.ReplaceAll(body, `\\`, `\`)
		b := &inBeh{}
		if err := json.Unmarshal([]byte(body), b); err != nil {
			rep.ParseErr++
			continue
		}
		ms := inReplay(b, *steps, solo)
		rep.Vectors++
		for _, c := range b.Cancelled {
			if c {
				rep.ByKind["with-cancel"]++
				break
			}
		}
		if len(b.Want) > 1 && b.Want[0] != b.Want[1] {
			// the two instances run under different extra EIPs
			rep.Nontrivial++
		}
		add(ms, body)
		if len(rep.Example) < 2 && len(b.Hist) > 8 {
			rep.Example = append(rep.Example, json.RawMessage(body))
		}
	}
	// free-running rounds: no gates, real parallelism (run under -race in the thorough tier)
	for r := 0; r < *freeN; r++ {
		var wg sync.WaitGroup
		res := make([]inResult, 8)
		cfg := make([]string, 8)
		for i := 0; i < 8; i++ {
			w, tx := i%4, []string{"A", "B"}[(i/4)%2]
			if r%2 == 1 {
				w, tx = i%2, []string{"W", "R"}[(i/2)%2] // odd rounds: context writers and readers, two instance addresses
			}
			idx := 1 + (i/4)%2
			cfg[i] = inSoloKey(w, tx, idx)
			wg.Add(1)
			go func(i, w int, tx string) {
				defer wg.Done()
				in := newInstance(w, tx, *steps, true, idx)
				in.construct()
				if i%4 == 3 && r%2 == 0 {
					go func() { time.Sleep(time.Duration(i) * time.Microsecond); in.env.EVM.Cancel() }()
				}
				go in.run()
				res[i] = <-in.done
			}(i, w, tx)
		}
		wg.Wait()
		rep.ByKind["free-round"]++
		for i := range res {
			if res[i].Panic != "" {
				add([]inMismatch{{Comp: "in.panic", Detail: "free-running instance panicked: " + res[i].Panic}}, `{"free":true}`)
			} else if res[i].Class != "cancelled" && res[i].Digest != solo[cfg[i]].Digest {
				add([]inMismatch{{Comp: "in.isolation", Detail: fmt.Sprintf("free-running instance %s differs from its solo outcome:\n  %s\n  %s", cfg[i], res[i].Detail, solo[cfg[i]].Detail)}}, `{"free":true}`)
			}
		}
	}
	if c, _ := inEipsClobbered.Load().(string); c != "" {
		add([]inMismatch{{Comp: "in.isolation", Detail: c + " (instances built from one vm.Config share that slice)"}}, `{"sharedConfig":true}`)
	}
	ks := make([]string, 0, len(rep.ByComp))
	for k := range rep.ByComp {
		ks = append(ks, k)
	}
	sort.Strings(ks)
	fmt.Printf("IN-DONE behaviours=%d mismatching-components=%v\n", rep.Vectors, ks)
	if *out != "" {
		raw, _ := json.MarshalIndent(rep, "", " ")
		if err := os.WriteFile(*out, raw, 0o644); err != nil {
			fmt.Fprintln(os.Stderr, err)
			return 2
		}
	}
	return 0
}
