package main

// verifh jpgas: runs the vectors of spec/JPGasScn.tla (one CALL to a callee with real WASM Aspects bound to its join
// points) on the real EVM and writes, per vector, the projection of the recorded events that spec/JPGasTrace.tla validates (C06).

import (
	"bufio"
	"encoding/json"
	"flag"
	"fmt"
	"math/big"
	"os"
	"strings"

	"github.com/artela-network/artela-evm/vm"
	"github.com/ethereum/go-ethereum/common"
	"verif/harness/evmx"
)

type jgVec struct {
	Pre  []string `json:"pre"`
	Body string   `json:"body"`
	Post []string `json:"post"`
	Gas  string   `json:"gas"`
}
type jgExp struct {
	PreRuns  int    `json:"preRuns"`
	BodyRuns bool   `json:"bodyRuns"`
	PostRuns int    `json:"postRuns"`
	Err      string `json:"err"`
}
type jgLine struct {
	V jgVec `json:"v"`
	E jgExp `json:"e"`
}

// one line of the trace for JPGasTrace.tla
type jgTrace struct {
	Name      string   `json:"name"`
	Given     int64    `json:"given"`
	Used      int64    `json:"used"`
	Reported  int64    `json:"reported"`
	Aen       []int64  `json:"aen"`
	Aex       []int64  `json:"aex"`
	Jp        []string `json:"jp"`
	Aerr      []string `json:"aerr"`
	First     int64    `json:"first"`
	Last      int64    `json:"last"`
	Err       string   `json:"err"`
	PreFailed bool     `json:"prefailed"`
	StructOK  bool     `json:"structok"`
	Struct    string   `json:"struct"`
}

func jgAspect(kind string, n int) evmx.AspectSpec {
	a := evmx.AspectSpec{ID: fmt.Sprintf("0x00000000000000000000000000000000000a59%02x", n)}
	switch kind {
	case "small":
		a.Loop = 100
	case "big":
		a.Loop = 3000
	case "inf":
		a.Inf = true
	case "trap":
		a.Loop = 10
		a.Trap = true
	}
	return a
}

func jgBody(kind string) []byte {
	a := evmx.NewAsm()
	switch kind {
	case "stop":
		a.Op(vm.STOP)
	case "work":
		a.Push(5).Push(1).Op(vm.SSTORE).Push(0x2a).Push(0).Op(vm.MSTORE).Push(32).Push(0).Op(vm.RETURN)
	case "revert":
		a.Push(0x2b).Push(0).Op(vm.MSTORE).Push(32).Push(0).Op(vm.REVERT)
	case "invalid":
		a.Push(1).Op(vm.POP, vm.INVALID)
	case "oog":
		a.Label("l").PushLabel("l").Op(vm.JUMP)
	}
	return a.Bytes()
}

// jgErr projects an error text to the classes the rules speak about
func jgErr(t string) string {
	switch {
	case t == "" || t == "out of gas" || t == "execution reverted":
		return t
	case strings.HasPrefix(t, "invalid opcode"):
		return "invalid opcode"
	}
	return "other failure"
}

func jgRun(l *jgLine) (jgTrace, string) {
	A := common.HexToAddress("0x00000000000000000000000000000000000000aa")
	B := common.HexToAddress("0x00000000000000000000000000000000000000bb")
	given := uint64(300000)
	if l.V.Gas == "tight" {
		given = 30000
	}
	e := evmx.NewEnv(evmx.EnvOpts{Fork: "London", Tracer: true, Steps: true})
	e.State.SetCode(B, jgBody(l.V.Body))
	e.State.SetNonce(B, 1)
	ca := evmx.NewAsm().Push(32).Push(0x40).Push(1).Push(0).Push(0).PushAddr(B).Push(given).Op(vm.CALL)
	ca.Push(9).Op(vm.SSTORE, vm.GAS, vm.POP, vm.STOP)
	e.State.SetCode(A, ca.Bytes())
	e.State.SetNonce(A, 1)
	for _, pt := range []struct {
		name string
		l    []string
	}{{"pre", l.V.Pre}, {"post", l.V.Post}} {
		var as []evmx.AspectSpec
		for i, k := range pt.l {
			as = append(as, jgAspect(k, i+1))
		}
		if len(as) > 0 {
			e.Host.Bindings[evmx.BindKey(B, pt.name)] = evmx.Binding{Aspects: as}
		}
	}
	e.EVM.IsExecuteJP = true
	e.Prepare(&A)
	res := e.Call(e.Origin, A, []byte{1}, 2_000_000, big.NewInt(0))
	t := jgTrace{Name: fmt.Sprintf("pre=%v body=%s post=%v gas=%s", l.V.Pre, l.V.Body, l.V.Post, l.V.Gas), First: -1, Last: -1, Reported: -1,
		Aen: []int64{}, Aex: []int64{}, Jp: []string{}, Aerr: []string{}}
	if res.Panic != "" {
		return t, "panic: " + res.Panic
	}
	if res.Err != nil {
		return t, "outer call failed: " + res.Err.Error()
	}
	inB := false
	var callStep *evmx.Event
	afterCall := int64(-1)
	bodyRan := false
	for i := range e.Rec.Events {
		ev := e.Rec.Events[i]
		switch ev.Ev {
		case "Enter":
			if !ev.Top {
				inB = true
				t.Given = int64(ev.Gas)
			}
		case "Exit":
			if !ev.Top && inB {
				inB = false
				t.Reported = int64(ev.GasUsed)
				t.Err = jgErr(ev.Err)
			}
		case "AEnter":
			t.Aen = append(t.Aen, int64(ev.Gas))
			t.Jp = append(t.Jp, ev.Point)
		case "AExit":
			t.Aex = append(t.Aex, int64(ev.Gas))
			t.Aerr = append(t.Aerr, jgErr(ev.Err))
			if ev.Point == "pre" && ev.Err != "" {
				t.PreFailed = true
			}
		case "Step":
			if ev.Depth == 2 {
				bodyRan = true
				if t.First < 0 {
					t.First = int64(ev.Gas)
				}
				if ev.Err == "" && !ev.Fault {
					t.Last = int64(ev.Gas) - int64(ev.Cost)
				} else if ev.Err != "" {
					t.Last = -1
				}
			}
			if ev.Depth == 1 {
				if vm.OpCode(ev.Op) == vm.CALL {
					callStep = &e.Rec.Events[i]
				} else if callStep != nil && afterCall < 0 {
					afterCall = int64(ev.Gas)
				}
			}
		}
	}
	if callStep == nil || afterCall < 0 {
		return t, "the caller's CALL step or its successor was not recorded"
	}
	// what the caller really got back: gas after the call = gas - cost + returned
	returned := afterCall - (int64(callStep.Gas) - int64(callStep.Cost))
	t.Used = t.Given - returned
	if len(t.Aex) < len(t.Aen) {
		return t, "an Aspect was entered but never exited"
	}
	// structure against the model
	pre, post := 0, 0
	for _, p := range t.Jp {
		if p == "pre" {
			pre++
		} else {
			post++
		}
	}
	cls := ""
	switch {
	case t.Err == "":
	case t.Err == "out of gas":
		cls = "oog"
	case t.Err == "execution reverted":
		cls = "revert"
	case strings.HasPrefix(t.Err, "invalid opcode"):
		cls = "invalid"
	default:
		cls = "jperr"
	}
	t.Struct = fmt.Sprintf("pre=%d body=%v post=%d err=%s", pre, bodyRan, post, cls)
	t.StructOK = l.V.Gas != "ample" || (pre == l.E.PreRuns && bodyRan == l.E.BodyRuns && post == l.E.PostRuns && cls == l.E.Err)
	return t, ""
}

func jpgasCmd(args []string) int {
	fs := flag.NewFlagSet("jpgas", flag.ExitOnError)
	out := fs.String("out", "", "report file")
	tracePath := fs.String("trace", "", "ndjson trace for JPGasTrace.tla")
	_ = fs.Parse(args)
	tf, err := os.Create(*tracePath)
	if err != nil {
		fmt.Fprintln(os.Stderr, err)
		return 2
	}
	defer tf.Close()
	enc := json.NewEncoder(tf)
	rep := &jcReport{ByComp: map[string]int{}, Samples: map[string][]jcMismatch{}, ByKind: map[string]int{}}
	sc := bufio.NewScanner(os.Stdin)
	sc.Buffer(make([]byte, 1<<20), 64<<20)
	for sc.Scan() {
		t := sc.Text()
		if !strings.HasPrefix(t, `"JG `) {
			fmt.Println(t)
			continue
		}
		body := t[4 : len(t)-1]
		body = strings.ReplaceAll(body, `\"`, `"`)
		body = strings.ReplaceAll(body, `\\`, `\`)
		l := &jgLine{}
		if err := json.Unmarshal([]byte(body), l); err != nil {
			rep.ParseErr++
			continue
		}
		tr, problem := jgRun(l)
		rep.Vectors++
		if len(l.V.Pre)+len(l.V.Post) > 0 {
			rep.Nontrivial++
		}
		if problem != "" {
			comp := "jg.setup"
			if strings.HasPrefix(problem, "panic") {
				comp = "jg.panic"
			}
			rep.ByComp[comp]++
			if len(rep.Samples[comp]) < 4 {
				rep.Samples[comp] = append(rep.Samples[comp], jcMismatch{Comp: comp, Detail: tr.Name + ": " + problem, Vector: json.RawMessage(body)})
			}
			continue
		}
		if tr.Reported != tr.Used {
			rep.ByComp["jg.report"]++
			if len(rep.Samples["jg.report"]) < 4 {
				rep.Samples["jg.report"] = append(rep.Samples["jg.report"], jcMismatch{Comp: "jg.report",
					Detail: fmt.Sprintf("%s: the frame's exit callback reports %d gas used, the caller actually lost %d (given %d)", tr.Name, tr.Reported, tr.Used, tr.Given), Vector: json.RawMessage(body)})
			}
		}
		_ = enc.Encode(tr)
		rep.ByKind["traced"]++
		if len(rep.Example) < 2 && len(tr.Aen) >= 2 {
			raw, _ := json.Marshal(tr)
			rep.Example = append(rep.Example, raw)
		}
	}
	fmt.Printf("JG-DONE vectors=%d traced=%d\n", rep.Vectors, rep.ByKind["traced"])
	if *out != "" {
		raw, _ := json.MarshalIndent(rep, "", " ")
		if err := os.WriteFile(*out, raw, 0o644); err != nil {
			fmt.Fprintln(os.Stderr, err)
			return 2
		}
	}
	return 0
}
