package main

// verifh trace: runs generated standard programs on the Artela EVM and on go-ethereum v1.12.0 with
// identical recorders and writes both callback streams, zipped position by position, as ndjson for
// spec/StepTrace.tla (C01, C02, C18).  No interpretation happens here: the two streams are recorded
// and paired by position; the TLA+ trace specification judges them.

import (
	"context"
	"encoding/hex"
	"encoding/json"
	"flag"
	"fmt"
	"math/big"
	"os"
	"path/filepath"
	"reflect"
	"runtime"
	"runtime/debug"
	"sort"
	"strings"
	"sync"

	atracers "github.com/artela-network/artela-evm/tracers"
	alogger "github.com/artela-network/artela-evm/tracers/logger"
	_ "github.com/artela-network/artela-evm/tracers/native"
	"github.com/artela-network/artela-evm/vm"
	"github.com/ethereum/go-ethereum/common"
	"github.com/ethereum/go-ethereum/core/state"
	"github.com/ethereum/go-ethereum/core/types"
	refvm "github.com/ethereum/go-ethereum/core/vm"
	"github.com/ethereum/go-ethereum/crypto"
	rtracers "github.com/ethereum/go-ethereum/eth/tracers"
	rlogger "github.com/ethereum/go-ethereum/eth/tracers/logger"
	_ "github.com/ethereum/go-ethereum/eth/tracers/native"
	"github.com/holiman/uint256"
	"verif/harness/evmx"
	"verif/harness/gen"
)

// SEv is one callback of the debug tracer (or the final result), with every field always present so that
// TLC sees uniform records. Numbers that may exceed TLC's 32-bit integers are clamped to -1 ("huge") and
// carried exactly in the companion string.
type SEv struct {
	K      string `json:"k"` // enter exit step fault result tracer reset none
	D      int    `json:"d"`
	Pc     int    `json:"pc"`
	Op     int    `json:"op"`
	Gas    int64  `json:"gas"`
	GasX   string `json:"gasx"`
	Cost   int64  `json:"cost"`
	CostX  string `json:"costx"`
	Err    string `json:"err"`
	Stk    int    `json:"stk"`
	T0     string `json:"t0"`
	T1     string `json:"t1"`
	T2     string `json:"t2"`
	I0     int64  `json:"i0"`
	I1     int64  `json:"i1"`
	I2     int64  `json:"i2"`
	StkH   string `json:"stkh"`
	Msize  int    `json:"msize"`
	MemH   string `json:"memh"`
	RdH    string `json:"rdh"`
	Kind   string `json:"kind"`
	From   string `json:"from"`
	To     string `json:"to"`
	InH    string `json:"inh"`
	InLen  int    `json:"inlen"`
	Val    string `json:"val"`
	Used   int64  `json:"used"`
	UsedX  string `json:"usedx"`
	OutH   string `json:"outh"`
	OutLen int    `json:"outlen"`
	Top    int    `json:"top"`
	Name   string `json:"name"`
	Kids   []int  `json:"kids"`
	Code   int    `json:"code"` // enter: size of the code at the target when the frame was entered
	// state facts the price of the instruction depends on (Artela side only; the trace specification prices SSTORE and calls from them)
	Args  []int64  `json:"args"`  // call family: every stack operand as a small integer (-1: larger than 2^31)
	Facts []int    `json:"facts"` // SSTORE: [slot warm]; call family: [target warm, exists, empty, value non-zero]; SELFDESTRUCT: [already destructed]; -1 unknown
	Tgt   string   `json:"tgt"`   // the address whose access-list status the price depends on (BALANCE, EXT*, calls, SELFDESTRUCT beneficiary)
	Warm  []string `json:"warm"`  // reset line: the access list as the transaction starts (addresses, and "address/slot")
	Cur   string   `json:"cur"`   // SSTORE: current value of the slot
	Orig  string   `json:"orig"`  // SSTORE: value of the slot at the start of the transaction
}

// factState remembers the answers the gas functions got from the access list (they add the entry before the tracer is called)
type factState struct {
	vm.StateDB
	lastAddr     common.Address
	lastAddrWarm int
	lastSlotAddr common.Address
	lastSlot     common.Hash
	lastSlotWarm int
}

func (f *factState) AddressInAccessList(a common.Address) bool {
	ok := f.StateDB.AddressInAccessList(a)
	f.lastAddr, f.lastAddrWarm = a, b2i(ok)
	return ok
}

func (f *factState) SlotInAccessList(a common.Address, k common.Hash) (bool, bool) {
	aok, sok := f.StateDB.SlotInAccessList(a, k)
	f.lastSlotAddr, f.lastSlot, f.lastSlotWarm = a, k, b2i(sok)
	return aok, sok
}

func b2i(b bool) int {
	if b {
		return 1
	}
	return 0
}

func clamp(v uint64) int64 {
	if v >= 1<<31 {
		return -1
	}
	return int64(v)
}

func sh(b []byte) string {
	if len(b) == 0 {
		return ""
	}
	return hex.EncodeToString(crypto.Keccak256(b)[:8])
}

// errText projects an error to its class: the text, except that an invalid-opcode error drops the opcode's
// name (the two code bases name the bytes 0x5c-0x5e and 0xb3-0xb4 differently; the class is the same).
func errText(err error) string {
	if err == nil {
		return ""
	}
	t := err.Error()
	if strings.HasPrefix(t, "invalid opcode") {
		return "invalid opcode"
	}
	return t
}

func bigS(v *big.Int) string {
	if v == nil {
		return "nil"
	}
	return v.String()
}

type stepRec struct {
	evs      []SEv
	limit    int
	codeSize func(common.Address) int
}

func (r *stepRec) add(e SEv) {
	if r.limit > 0 && len(r.evs) >= r.limit {
		return
	}
	r.evs = append(r.evs, e)
}

func (r *stepRec) enter(top bool, kind string, from, to common.Address, input []byte, gas uint64, value *big.Int) {
	t := 0
	if top {
		t = 1
	}
	e := SEv{K: "enter", Top: t, Kind: kind, From: hex.EncodeToString(from[:]), To: hex.EncodeToString(to[:]), InH: sh(input), InLen: len(input),
		Gas: clamp(gas), GasX: fmt.Sprint(gas), Val: bigS(value)}
	if r.codeSize != nil {
		e.Code = r.codeSize(to)
	}
	r.add(e)
}

func (r *stepRec) exit(top bool, out []byte, used uint64, err error) {
	t := 0
	if top {
		t = 1
	}
	r.add(SEv{K: "exit", Top: t, OutH: sh(out), OutLen: len(out), Used: clamp(used), UsedX: fmt.Sprint(used), Err: errText(err)})
}

func (r *stepRec) step(k string, pc uint64, op int, gas, cost uint64, stack []uint256.Int, mem []byte, rd []byte, depth int, err error) {
	e := SEv{K: k, Pc: int(pc), Op: op, Gas: clamp(gas), GasX: fmt.Sprint(gas), Cost: clamp(cost), CostX: fmt.Sprint(cost), D: depth, Err: errText(err),
		Stk: len(stack), Msize: len(mem), MemH: sh(mem), RdH: sh(rd), I0: -2, I1: -2, I2: -2}
	top := func(i int) (string, int64) {
		if i >= len(stack) {
			return "", -2
		}
		v := stack[len(stack)-1-i]
		iv := int64(-1)
		if v.IsUint64() && v.Uint64() < 1<<31 {
			iv = int64(v.Uint64())
		}
		return v.Hex(), iv
	}
	e.T0, e.I0 = top(0)
	e.T1, e.I1 = top(1)
	e.T2, e.I2 = top(2)
	if len(stack) > 3 {
		h := crypto.NewKeccakState()
		for i := range stack {
			b := stack[i].Bytes32()
			h.Write(b[:])
		}
		var o [32]byte
		h.Read(o[:])
		e.StkH = hex.EncodeToString(o[:8])
	}
	r.add(e)
}

// Artela side
type aRec struct {
	stepRec
	fs *factState
}

// facts adds to the step event just recorded what the price of SSTORE / a call / SELFDESTRUCT depends on
func (r *aRec) facts(op vm.OpCode, scope *vm.ScopeContext) {
	if r.fs == nil || len(r.evs) == 0 || (r.limit > 0 && len(r.evs) >= r.limit) {
		return
	}
	e := &r.evs[len(r.evs)-1]
	st := scope.Stack.Data()
	n := len(st)
	self := scope.Contract.Address()
	switch op {
	case vm.SSTORE:
		if n < 2 {
			return
		}
		key := common.Hash(st[n-1].Bytes32())
		cur, orig := r.fs.StateDB.GetState(self, key), r.fs.StateDB.GetCommittedState(self, key)
		e.Cur = new(uint256.Int).SetBytes(cur[:]).Hex() // same rendering as the stack operands
		e.Orig = new(uint256.Int).SetBytes(orig[:]).Hex()
		w := -1
		if r.fs.lastSlotAddr == self && r.fs.lastSlot == key {
			w = r.fs.lastSlotWarm
		}
		e.Facts = []int{w}
	case vm.SLOAD:
		if n < 1 {
			return
		}
		key := common.Hash(st[n-1].Bytes32())
		w := -1
		if r.fs.lastSlotAddr == self && r.fs.lastSlot == key {
			w = r.fs.lastSlotWarm
		}
		e.Facts = []int{w}
	case vm.BALANCE, vm.EXTCODESIZE, vm.EXTCODECOPY, vm.EXTCODEHASH:
		if n < 1 {
			return
		}
		tgt := common.Address(st[n-1].Bytes20())
		w := -1
		if r.fs.lastAddr == tgt {
			w = r.fs.lastAddrWarm
		}
		e.Tgt = hex.EncodeToString(tgt[:])
		e.Facts = []int{w}
	case vm.CALL, vm.CALLCODE, vm.DELEGATECALL, vm.STATICCALL:
		need := 6
		if op == vm.CALL || op == vm.CALLCODE {
			need = 7
		}
		if n < need {
			return
		}
		for i := 0; i < need; i++ {
			v := st[n-1-i]
			iv := int64(-1)
			if v.IsUint64() && v.Uint64() < 1<<31 {
				iv = int64(v.Uint64())
			}
			e.Args = append(e.Args, iv)
		}
		tgt := common.Address(st[n-2].Bytes20())
		w := -1
		if r.fs.lastAddr == tgt {
			w = r.fs.lastAddrWarm
		}
		val := 0
		if need == 7 && !st[n-3].IsZero() {
			val = 1
		}
		e.Tgt = hex.EncodeToString(tgt[:])
		e.Facts = []int{w, b2i(r.fs.StateDB.Exist(tgt)), b2i(r.fs.StateDB.Empty(tgt)), val}
	case vm.SELFDESTRUCT:
		if n < 1 {
			return
		}
		tgt := common.Address(st[n-1].Bytes20())
		w := -1
		if r.fs.lastAddr == tgt {
			w = r.fs.lastAddrWarm
		}
		e.Tgt = hex.EncodeToString(tgt[:])
		e.Facts = []int{b2i(r.fs.StateDB.HasSuicided(self)), w}
	}
}

func (r *aRec) CaptureTxStart(uint64) {}
func (r *aRec) CaptureTxEnd(uint64)   {}
func (r *aRec) CaptureStart(env *vm.EVM, from, to common.Address, create bool, input []byte, gas uint64, value *big.Int) {
	k := "CALL"
	if create {
		k = "CREATE"
	}
	r.enter(true, k, from, to, input, gas, value)
}
func (r *aRec) CaptureEnd(out []byte, used uint64, err error) { r.exit(true, out, used, err) }
func (r *aRec) CaptureEnter(typ vm.OpCode, from, to common.Address, input []byte, gas uint64, value *big.Int) {
	r.enter(false, typ.String(), from, to, input, gas, value)
}
func (r *aRec) CaptureExit(out []byte, used uint64, err error) { r.exit(false, out, used, err) }
func (r *aRec) CaptureState(pc uint64, op vm.OpCode, gas, cost uint64, scope *vm.ScopeContext, rData []byte, depth int, err error) {
	r.step("step", pc, int(op), gas, cost, scope.Stack.Data(), scope.Memory.Data(), rData, depth, err)
	if err == nil {
		r.facts(op, scope)
	}
}
func (r *aRec) CaptureFault(pc uint64, op vm.OpCode, gas, cost uint64, scope *vm.ScopeContext, depth int, err error) {
	r.step("fault", pc, int(op), gas, cost, scope.Stack.Data(), scope.Memory.Data(), nil, depth, err)
}

// reference side
type rRec struct{ stepRec }

func (r *rRec) CaptureTxStart(uint64) {}
func (r *rRec) CaptureTxEnd(uint64)   {}
func (r *rRec) CaptureStart(env *refvm.EVM, from, to common.Address, create bool, input []byte, gas uint64, value *big.Int) {
	k := "CALL"
	if create {
		k = "CREATE"
	}
	r.enter(true, k, from, to, input, gas, value)
}
func (r *rRec) CaptureEnd(out []byte, used uint64, err error) { r.exit(true, out, used, err) }
func (r *rRec) CaptureEnter(typ refvm.OpCode, from, to common.Address, input []byte, gas uint64, value *big.Int) {
	r.enter(false, typ.String(), from, to, input, gas, value)
}
func (r *rRec) CaptureExit(out []byte, used uint64, err error) { r.exit(false, out, used, err) }
func (r *rRec) CaptureState(pc uint64, op refvm.OpCode, gas, cost uint64, scope *refvm.ScopeContext, rData []byte, depth int, err error) {
	r.step("step", pc, int(op), gas, cost, scope.Stack.Data(), scope.Memory.Data(), rData, depth, err)
}
func (r *rRec) CaptureFault(pc uint64, op refvm.OpCode, gas, cost uint64, scope *refvm.ScopeContext, depth int, err error) {
	r.step("fault", pc, int(op), gas, cost, scope.Stack.Data(), scope.Memory.Data(), nil, depth, err)
}

// tee loggers: the recorder plus the inherited tracers under comparison
type aTee struct{ ls []vm.EVMLogger }

func (t *aTee) CaptureTxStart(g uint64) {
	for _, l := range t.ls {
		l.CaptureTxStart(g)
	}
}
func (t *aTee) CaptureTxEnd(g uint64) {
	for _, l := range t.ls {
		l.CaptureTxEnd(g)
	}
}
func (t *aTee) CaptureStart(env *vm.EVM, from, to common.Address, create bool, input []byte, gas uint64, value *big.Int) {
	for _, l := range t.ls {
		l.CaptureStart(env, from, to, create, input, gas, value)
	}
}
func (t *aTee) CaptureEnd(out []byte, used uint64, err error) {
	for _, l := range t.ls {
		l.CaptureEnd(out, used, err)
	}
}
func (t *aTee) CaptureEnter(typ vm.OpCode, from, to common.Address, input []byte, gas uint64, value *big.Int) {
	for _, l := range t.ls {
		l.CaptureEnter(typ, from, to, input, gas, value)
	}
}
func (t *aTee) CaptureExit(out []byte, used uint64, err error) {
	for _, l := range t.ls {
		l.CaptureExit(out, used, err)
	}
}
func (t *aTee) CaptureState(pc uint64, op vm.OpCode, gas, cost uint64, scope *vm.ScopeContext, rData []byte, depth int, err error) {
	for _, l := range t.ls {
		l.CaptureState(pc, op, gas, cost, scope, rData, depth, err)
	}
}
func (t *aTee) CaptureFault(pc uint64, op vm.OpCode, gas, cost uint64, scope *vm.ScopeContext, depth int, err error) {
	for _, l := range t.ls {
		l.CaptureFault(pc, op, gas, cost, scope, depth, err)
	}
}

type rTee struct{ ls []refvm.EVMLogger }

func (t *rTee) CaptureTxStart(g uint64) {
	for _, l := range t.ls {
		l.CaptureTxStart(g)
	}
}
func (t *rTee) CaptureTxEnd(g uint64) {
	for _, l := range t.ls {
		l.CaptureTxEnd(g)
	}
}
func (t *rTee) CaptureStart(env *refvm.EVM, from, to common.Address, create bool, input []byte, gas uint64, value *big.Int) {
	for _, l := range t.ls {
		l.CaptureStart(env, from, to, create, input, gas, value)
	}
}
func (t *rTee) CaptureEnd(out []byte, used uint64, err error) {
	for _, l := range t.ls {
		l.CaptureEnd(out, used, err)
	}
}
func (t *rTee) CaptureEnter(typ refvm.OpCode, from, to common.Address, input []byte, gas uint64, value *big.Int) {
	for _, l := range t.ls {
		l.CaptureEnter(typ, from, to, input, gas, value)
	}
}
func (t *rTee) CaptureExit(out []byte, used uint64, err error) {
	for _, l := range t.ls {
		l.CaptureExit(out, used, err)
	}
}
func (t *rTee) CaptureState(pc uint64, op refvm.OpCode, gas, cost uint64, scope *refvm.ScopeContext, rData []byte, depth int, err error) {
	for _, l := range t.ls {
		l.CaptureState(pc, op, gas, cost, scope, rData, depth, err)
	}
}
func (t *rTee) CaptureFault(pc uint64, op refvm.OpCode, gas, cost uint64, scope *refvm.ScopeContext, depth int, err error) {
	for _, l := range t.ls {
		l.CaptureFault(pc, op, gas, cost, scope, depth, err)
	}
}

// ---------------------------------------------------------------------------

func prepState(p *gen.Program) *state.StateDB {
	st := evmx.NewState()
	for a, c := range p.Contracts {
		st.SetCode(a, c)
		st.SetNonce(a, 1)
	}
	for a, b := range p.Balances {
		st.SetBalance(a, b)
	}
	for a, m := range p.Storage {
		for k, v := range m {
			st.SetState(a, k, v)
		}
	}
	root, err := st.Commit(false)
	if err != nil {
		panic(err)
	}
	st2, err := state.New(root, st.Database(), nil)
	if err != nil {
		panic(err)
	}
	return st2
}

type runOpts struct {
	fork    string
	gas     uint64
	tracer  bool
	jpOn    bool
	tracers bool // attach the inherited tracers as well
	limit   int
	eips    []int
}

type runOut struct {
	evs    []SEv
	result SEv
	outs   []SEv    // inherited tracer outputs
	warm   []string // Artela only: the access list at the start of the transaction (Berlin and later)
	tree   []SEv    // Artela only: the call tree as the exported query API returns it after the run (node lines + one tree line)
}

// treeLines dumps the call tree through FindCall / ParentOf / ChildrenOf.
func treeLines(e *evmx.Env, truncated bool) []SEv {
	d := evmx.DumpTree(e.EVM.Tracer())
	var out []SEv
	for _, n := range d.Nodes {
		l := SEv{K: "node", D: int(n.Index) + 1, From: n.From, To: n.To, Val: n.Value, GasX: fmt.Sprint(n.Gas), Gas: clamp(n.Gas), Err: errClassOf(n.Err),
			UsedX: fmt.Sprint(n.Left), Used: clamp(n.Left), Pc: int(n.Parent) + 1, I0: -2, I1: -2, I2: -2, Kids: []int{}}
		l.InH, l.InLen = n.DataH, n.DataLen
		l.OutH, l.OutLen = n.RetH, n.RetLen
		if n.Parent != n.ParentQ {
			l.Pc = -7 // the two ways of asking for the parent disagree
		}
		for _, c := range n.Children {
			l.Kids = append(l.Kids, int(c)+1)
		}
		if fmt.Sprint(n.Children) != fmt.Sprint(n.ChildIdx) {
			l.Kids = append(l.Kids, -7)
		}
		if truncated {
			l.Top = 1
		}
		out = append(out, l)
	}
	t := SEv{K: "tree", D: len(d.Nodes), Pc: int(d.Cur) + 1, I0: -2, I1: -2, I2: -2, Kids: []int{}}
	if d.Beyond[0] || d.Beyond[1] {
		t.Stk = 1
	}
	if truncated {
		t.Top = 1
	}
	return append(out, t)
}

// balanceLines: the transfers observed by the wrapped Transfer function (with the position in the callback stream at which each
// happened and the real balances around it), then the balance journal of every account involved as StateChanges.Balance returns it.
func balanceLines(e *evmx.Env, p *gen.Program, truncated bool) []SEv {
	var out []SEv
	top := 0
	if truncated {
		top = 1
	}
	seen := map[string]bool{}
	var accts []string
	add := func(a string) {
		if !seen[a] {
			seen[a] = true
			accts = append(accts, a)
		}
	}
	for _, x := range e.Xfers {
		out = append(out, SEv{K: "xfer", D: x.Pos, From: x.From, To: x.To, Val: x.Amt, T0: x.Before[0], T1: x.Before[1], T2: x.After[0], GasX: x.After[1], Top: top, I0: -2, I1: -2, I2: -2, Kids: []int{}})
		add(x.From)
		add(x.To)
	}
	add(hex.EncodeToString(gen.EO[:]))
	add(hex.EncodeToString(evmx.DefaultCoinbase[:]))
	var cs []string
	for a := range p.Contracts {
		cs = append(cs, hex.EncodeToString(a[:]))
	}
	sort.Strings(cs)
	for _, a := range cs {
		add(a)
	}
	sc := e.EVM.Tracer().StateChanges()
	n := 0
	for _, a := range accts {
		d := evmx.DumpChanges(sc.Balance(common.HexToAddress(a)))
		for _, idx := range evmx.SortedKeys(d) {
			for i, v := range d[idx] {
				b, _ := hex.DecodeString(v)
				out = append(out, SEv{K: "balv", To: a, D: int(idx) + 1, Pc: i + 1, Val: new(big.Int).SetBytes(b).String(), Top: top, I0: -2, I1: -2, I2: -2, Kids: []int{}})
				n++
			}
		}
	}
	return append(out, SEv{K: "balend", D: n, Pc: len(e.Xfers), Top: top, I0: -2, I1: -2, I2: -2, Kids: []int{}})
}

func errClassOf(t string) string {
	if strings.HasPrefix(t, "invalid opcode") {
		return "invalid opcode"
	}
	return t
}

func resultEv(ret []byte, left uint64, err error, panicked string, st *state.StateDB, eip158 bool, addr common.Address) SEv {
	e := SEv{K: "result", OutH: sh(ret), OutLen: len(ret), Gas: clamp(left), GasX: fmt.Sprint(left), Err: errText(err), To: hex.EncodeToString(addr[:])}
	if panicked != "" {
		e.Err = "PANIC: " + panicked
	}
	// the refund counter first: IntermediateRoot finalises the state, which clears it
	e.Cost = clamp(st.GetRefund())
	e.CostX = fmt.Sprint(st.GetRefund())
	root := st.IntermediateRoot(eip158)
	e.MemH = hex.EncodeToString(root[:8])
	var lb []byte
	for _, l := range st.Logs() {
		lb = append(lb, l.Address[:]...)
		for _, t := range l.Topics {
			lb = append(lb, t[:]...)
		}
		lb = append(lb, l.Data...)
		lb = append(lb, 0xff)
	}
	e.RdH = sh(lb)
	return e
}

func tracerOut(name string, raw []byte, err error) SEv {
	e := SEv{K: "tracer", Name: name, OutH: sh(raw), OutLen: len(raw)}
	if err != nil {
		e.Err = err.Error()
	}
	return e
}

func accessListWarm(p *gen.Program) ([]common.Address, []common.Hash) {
	return p.WarmAddrs, p.WarmSlots
}

func runArtela(p *gen.Program, o runOpts) (out runOut) {
	st := prepState(p)
	rec := &aRec{stepRec: stepRec{limit: o.limit}}
	rec.codeSize = func(a common.Address) int { return st.GetCodeSize(a) }
	envo := evmx.EnvOpts{Fork: o.fork, State: st, ExtraEips: o.eips, Origin: gen.EO,
		WrapState: func(s vm.StateDB) vm.StateDB {
			rec.fs = &factState{StateDB: s, lastAddrWarm: -1, lastSlotWarm: -1}
			return rec.fs
		}}
	e := evmx.NewEnv(envo)
	var tee *aTee
	var sl *alogger.StructLogger
	var al *alogger.AccessListTracer
	named := map[string]atracers.Tracer{}
	if o.tracer {
		tee = &aTee{ls: []vm.EVMLogger{rec}}
		if o.tracers {
			for _, n := range [][2]string{{"callTracer", `{}`}, {"callTracer", `{"withLog":true}`}, {"callTracer", `{"onlyTopCall":true}`}, {"flatCallTracer", `{}`},
				{"flatCallTracer", `{"convertParityErrors":true,"includePrecompiles":true}`}, {"prestateTracer", `{}`}, {"prestateTracer", `{"diffMode":true}`}, {"4byteTracer", `{}`}} {
				t, err := atracers.DefaultDirectory.New(n[0], &atracers.Context{}, json.RawMessage(n[1]))
				if err == nil {
					named[n[0]+n[1]] = t
					tee.ls = append(tee.ls, t)
				}
			}
			sl = alogger.NewStructLogger(&alogger.Config{EnableMemory: true, EnableReturnData: true})
			tee.ls = append(tee.ls, sl)
			al = alogger.NewAccessListTracer(nil, gen.EO, p.To, vm.ActivePrecompiles(e.Rules()))
			tee.ls = append(tee.ls, al)
		}
		// rebuild the EVM with the tee as tracer
		e = evmx.NewEnvWithTracer(envo, tee)
	}
	e.EVM.IsExecuteJP = o.jpOn
	e.XferPos = func() int { return len(rec.evs) }
	var firings []SEv
	e.Host.OnFire = func(f evmx.Firing) {
		firings = append(firings, SEv{K: "jp", D: len(rec.evs), To: f.Contract, Name: f.Point, I0: -2, I1: -2, I2: -2})
	}
	rules := e.Rules()
	to := p.To
	var dst *common.Address
	if p.Entry != "create" && p.Entry != "create2" {
		dst = &to
	}
	st.Prepare(rules, gen.EO, evmx.DefaultCoinbase, dst, vm.ActivePrecompiles(rules), nil)
	for _, a := range p.WarmAddrs {
		st.AddAddressToAccessList(a)
	}
	for _, s := range p.WarmSlots {
		st.AddSlotToAccessList(p.To, s)
	}
	if rules.IsBerlin {
		out.warm = append(out.warm, hex.EncodeToString(gen.EO[:]))
		if dst != nil {
			out.warm = append(out.warm, hex.EncodeToString(dst[:]))
		}
		for _, a := range vm.ActivePrecompiles(rules) {
			out.warm = append(out.warm, hex.EncodeToString(a[:]))
		}
		if rules.IsShanghai {
			out.warm = append(out.warm, hex.EncodeToString(evmx.DefaultCoinbase[:]))
		}
		for _, a := range p.WarmAddrs {
			out.warm = append(out.warm, hex.EncodeToString(a[:]))
		}
		for _, k := range p.WarmSlots {
			out.warm = append(out.warm, hex.EncodeToString(p.To[:])+"/"+new(uint256.Int).SetBytes(k[:]).Hex())
		}
	}
	var ret []byte
	var left uint64
	var err error
	var addr common.Address
	panicked := ""
	func() {
		defer func() {
			if r := recover(); r != nil {
				panicked = fmt.Sprint(r)
				if os.Getenv("VERIF_DEBUG_PANIC") != "" {
					fmt.Fprintf(os.Stderr, "PANIC %s entry=%s\n%s\n", panicked, p.Entry, debug.Stack())
				}
			}
		}()
		ctx := e.Ctx
		caller := vm.AccountRef(gen.EO)
		if tee != nil {
			tee.CaptureTxStart(o.gas) // the state transition brackets the EVM call with these two
			defer func() { tee.CaptureTxEnd(left) }()
		}
		switch p.Entry {
		case "call":
			ret, left, err = e.EVM.Call(ctx, caller, p.To, p.Input, o.gas, p.Value)
		case "callcode":
			ret, left, err = e.EVM.CallCode(ctx, caller, p.To, p.Input, o.gas, p.Value)
		case "delegatecall":
			c := vm.NewContract(vm.AccountRef(gen.EO), vm.AccountRef(gen.EO), big.NewInt(0), o.gas)
			ret, left, err = e.EVM.DelegateCall(ctx, c, p.To, p.Input, o.gas)
		case "staticcall":
			ret, left, err = e.EVM.StaticCall(ctx, caller, p.To, p.Input, o.gas)
		case "create":
			ret, addr, left, err = e.EVM.Create(ctx, caller, p.Input, o.gas, p.Value)
		case "create2":
			ret, addr, left, err = e.EVM.Create2(ctx, caller, p.Input, o.gas, p.Value, uint256.NewInt(7))
		}
	}()
	out.evs = rec.evs
	out.result = resultEv(ret, left, err, panicked, st, rules.IsEIP158, addr)
	if o.limit > 0 && len(rec.evs) >= o.limit {
		out.result.Top = 1 // the recorded stream was cut
	}
	if o.tracer && panicked == "" {
		truncated := o.limit > 0 && len(rec.evs) >= o.limit
		out.tree = treeLines(e, truncated)
		out.tree = append(out.tree, balanceLines(e, p, truncated)...)
		if o.jpOn {
			// the provider's log of join-point firings with the position in the callback stream at which each happened
			if truncated {
				for i := range firings {
					firings[i].Top = 1
				}
			}
			out.tree = append(out.tree, firings...)
			end := SEv{K: "jpend", D: len(firings), I0: -2, I1: -2, I2: -2}
			if truncated {
				end.Top = 1
			}
			out.tree = append(out.tree, end)
		}
	}
	if o.tracers && o.tracer {
		names := make([]string, 0, len(named))
		for n := range named {
			names = append(names, n)
		}
		sort.Strings(names)
		for _, n := range names {
			var raw json.RawMessage
			var gerr error
			func() {
				defer func() {
					if r := recover(); r != nil {
						gerr = fmt.Errorf("panic: %v", r)
					}
				}()
				raw, gerr = named[n].GetResult()
			}()
			out.outs = append(out.outs, tracerOut(n, raw, gerr))
		}
		raw, _ := json.Marshal(sl.StructLogs())
		out.outs = append(out.outs, tracerOut("structLogger", raw, nil))
		// the public result of the struct logger, which (unlike the JSON of the log entries) includes the storage snapshots; the text
		// rendering (WriteTrace) prints the storage map in Go's map order and is therefore not compared
		res, rerr := sl.GetResult()
		out.outs = append(out.outs, tracerOut("structLogger.result", res, rerr))
		out.outs = append(out.outs, tracerOut("accessList", canonAccessList(al.AccessList()), nil))
	}
	return
}

// canonAccessList renders an access list independently of the (map) order both implementations build it in.
func canonAccessList(al types.AccessList) []byte {
	var ls []string
	for _, t := range al {
		ks := make([]string, len(t.StorageKeys))
		for i, k := range t.StorageKeys {
			ks[i] = k.Hex()
		}
		sort.Strings(ks)
		ls = append(ls, t.Address.Hex()+":"+strings.Join(ks, ","))
	}
	sort.Strings(ls)
	return []byte(strings.Join(ls, ";"))
}

func runRef(p *gen.Program, o runOpts) (out runOut) {
	st := prepState(p)
	rec := &rRec{stepRec{limit: o.limit}}
	rec.codeSize = func(a common.Address) int { return st.GetCodeSize(a) }
	var tracer refvm.EVMLogger
	var sl *rlogger.StructLogger
	var al *rlogger.AccessListTracer
	named := map[string]rtracers.Tracer{}
	cfgRules := evmx.ChainConfig(o.fork).Rules(big.NewInt(10), evmx.IsMerge(o.fork), 10)
	if o.tracer {
		tee := &rTee{ls: []refvm.EVMLogger{rec}}
		if o.tracers {
			for _, n := range [][2]string{{"callTracer", `{}`}, {"callTracer", `{"withLog":true}`}, {"callTracer", `{"onlyTopCall":true}`}, {"flatCallTracer", `{}`},
				{"flatCallTracer", `{"convertParityErrors":true,"includePrecompiles":true}`}, {"prestateTracer", `{}`}, {"prestateTracer", `{"diffMode":true}`}, {"4byteTracer", `{}`}} {
				t, err := rtracers.DefaultDirectory.New(n[0], &rtracers.Context{}, json.RawMessage(n[1]))
				if err == nil {
					named[n[0]+n[1]] = t
					tee.ls = append(tee.ls, t)
				}
			}
			sl = rlogger.NewStructLogger(&rlogger.Config{EnableMemory: true, EnableReturnData: true})
			tee.ls = append(tee.ls, sl)
			al = rlogger.NewAccessListTracer(nil, gen.EO, p.To, refvm.ActivePrecompiles(cfgRules))
			tee.ls = append(tee.ls, al)
		}
		tracer = tee
	}
	e := evmx.NewRefEnv(o.fork, st, tracer, o.eips, gen.EO)
	rules := e.Rules()
	to := p.To
	var dst *common.Address
	if p.Entry != "create" && p.Entry != "create2" {
		dst = &to
	}
	st.Prepare(rules, gen.EO, evmx.DefaultCoinbase, dst, refvm.ActivePrecompiles(rules), nil)
	for _, a := range p.WarmAddrs {
		st.AddAddressToAccessList(a)
	}
	for _, s := range p.WarmSlots {
		st.AddSlotToAccessList(p.To, s)
	}
	var ret []byte
	var left uint64
	var err error
	var addr common.Address
	panicked := ""
	func() {
		defer func() {
			if r := recover(); r != nil {
				panicked = fmt.Sprint(r)
			}
		}()
		caller := refvm.AccountRef(gen.EO)
		if tracer != nil {
			tracer.CaptureTxStart(o.gas)
			defer func() { tracer.CaptureTxEnd(left) }()
		}
		switch p.Entry {
		case "call":
			ret, left, err = e.EVM.Call(caller, p.To, p.Input, o.gas, p.Value)
		case "callcode":
			ret, left, err = e.EVM.CallCode(caller, p.To, p.Input, o.gas, p.Value)
		case "delegatecall":
			c := refvm.NewContract(refvm.AccountRef(gen.EO), refvm.AccountRef(gen.EO), big.NewInt(0), o.gas)
			ret, left, err = e.EVM.DelegateCall(c, p.To, p.Input, o.gas)
		case "staticcall":
			ret, left, err = e.EVM.StaticCall(caller, p.To, p.Input, o.gas)
		case "create":
			ret, addr, left, err = e.EVM.Create(caller, p.Input, o.gas, p.Value)
		case "create2":
			ret, addr, left, err = e.EVM.Create2(caller, p.Input, o.gas, p.Value, uint256.NewInt(7))
		}
	}()
	out.evs = rec.evs
	out.result = resultEv(ret, left, err, panicked, st, rules.IsEIP158, addr)
	if o.limit > 0 && len(rec.evs) >= o.limit {
		out.result.Top = 1
	}
	if o.tracers && o.tracer {
		names := make([]string, 0, len(named))
		for n := range named {
			names = append(names, n)
		}
		sort.Strings(names)
		for _, n := range names {
			raw, gerr := named[n].GetResult()
			out.outs = append(out.outs, tracerOut(n, raw, gerr))
		}
		raw, _ := json.Marshal(sl.StructLogs())
		out.outs = append(out.outs, tracerOut("structLogger", raw, nil))
		// the public result of the struct logger, which (unlike the JSON of the log entries) includes the storage snapshots; the text
		// rendering (WriteTrace) prints the storage map in Go's map order and is therefore not compared
		res, rerr := sl.GetResult()
		out.outs = append(out.outs, tracerOut("structLogger.result", res, rerr))
		out.outs = append(out.outs, tracerOut("accessList", canonAccessList(al.AccessList()), nil))
	}
	return
}

type pairLine struct {
	A SEv `json:"a"`
	R SEv `json:"r"`
}

// MarshalJSON keeps the records uniform for TLC: the kids field is always a (possibly empty) list.
func (p pairLine) MarshalJSON() ([]byte, error) {
	if p.A.Kids == nil {
		p.A.Kids = []int{}
	}
	if p.R.Kids == nil {
		p.R.Kids = []int{}
	}
	for _, e := range []*SEv{&p.A, &p.R} {
		if e.Args == nil {
			e.Args = []int64{}
		}
		if e.Facts == nil {
			e.Facts = []int{}
		}
		if e.Warm == nil {
			e.Warm = []string{}
		}
	}
	type plain pairLine
	return json.Marshal(plain(p))
}

var noneEv = SEv{K: "none", I0: -2, I1: -2, I2: -2}

// zip pairs the two recorded sequences position by position; a missing partner is the "none" event.
func zip(a, r []SEv) []pairLine {
	n := len(a)
	if len(r) > n {
		n = len(r)
	}
	out := make([]pairLine, 0, n)
	for i := 0; i < n; i++ {
		l := pairLine{A: noneEv, R: noneEv}
		if i < len(a) {
			l.A = a[i]
		}
		if i < len(r) {
			l.R = r[i]
		}
		out = append(out, l)
	}
	return out
}

type progMeta struct {
	Idx    int    `json:"idx"`
	Name   string `json:"name"`
	Fork   string `json:"fork"`
	Entry  string `json:"entry"`
	Gas    uint64 `json:"gas"`
	Cfg    string `json:"cfg"`
	Events int    `json:"events"`
}

func forkRulesBits(fork string) string { return fork }

// writeRun appends one paired run to the batch: reset line, zipped events, result pair, tracer outputs.
func writeRun(w *os.File, meta progMeta, a, r runOut) int {
	enc := json.NewEncoder(w)
	reset := SEv{K: "reset", Name: fmt.Sprintf("%d/%s/%s/%s/%d/%s", meta.Idx, meta.Name, meta.Fork, meta.Entry, meta.Gas, meta.Cfg), Kind: meta.Fork, I0: -2, I1: -2, I2: -2}
	reset.Warm = a.warm
	if strings.Contains(meta.Cfg, "3860") {
		reset.Code = 3860 // EIP-3860 is enabled as an extra EIP: init code is priced per word on every fork
	}
	if strings.HasSuffix(meta.Cfg, "+jp") && strings.HasPrefix(meta.Cfg, "tracer") {
		reset.Top = 1 // join points are on (nothing bound) and the stream is recorded
	}
	_ = enc.Encode(pairLine{A: reset, R: reset})
	n := 1
	for _, l := range zip(a.evs, r.evs) {
		_ = enc.Encode(l)
		n++
	}
	_ = enc.Encode(pairLine{A: a.result, R: r.result})
	n++
	for _, l := range zip(a.outs, r.outs) {
		_ = enc.Encode(l)
		n++
	}
	// the recorded call tree of the Artela run: no reference counterpart, the trace specification rebuilds the expectation
	for _, l := range a.tree {
		_ = enc.Encode(pairLine{A: l, R: l})
		n++
	}
	return n
}

// sweepLimits derives gas limits around every intermediate gas value of the top-level frame.
func sweepLimits(evs []SEv, g0 uint64, max int, seed int64, left int64) []uint64 {
	set := map[uint64]bool{}
	for _, e := range evs {
		if e.K != "step" || e.D != 1 || e.Gas < 0 || e.Cost < 0 {
			continue
		}
		used := g0 - uint64(e.Gas)
		for _, d := range []int64{-1, 0, 1} {
			v := int64(used) + e.Cost + d
			if v > 0 && uint64(v) < g0 {
				set[uint64(v)] = true
			}
		}
	}
	ls := make([]uint64, 0, len(set))
	for v := range set {
		ls = append(ls, v)
	}
	sort.Slice(ls, func(i, j int) bool { return ls[i] < ls[j] })
	if len(ls) > max {
		// spread deterministically
		step := float64(len(ls)) / float64(max)
		out := make([]uint64, 0, max)
		for i := 0; i < max; i++ {
			out = append(out, ls[int(float64(i)*step)])
		}
		ls = out
	}
	// always: exactly the gas the whole run needs (what is charged after the last instruction - the code deposit of a creation -
	// has no step of its own), and the limits at which one of the first nested frames is given exactly what it uses
	// (gas forwarded under the 63/64 rule moves by 63/64 of the change of the limit)
	extra := map[uint64]bool{}
	add := func(v int64) {
		if v > 0 && uint64(v) < g0 {
			extra[uint64(v)] = true
		}
	}
	if left >= 0 && uint64(left) <= g0 {
		for _, d := range []int64{-1, 0, 1} {
			add(int64(g0) - left + d)
		}
	}
	var given []int64
	nested := 0
	for _, e := range evs {
		switch {
		case e.K == "enter" && e.Top == 0:
			given = append(given, e.Gas)
		case e.K == "exit" && e.Top == 0 && len(given) > 0:
			g := given[len(given)-1]
			given = given[:len(given)-1]
			if len(given) == 0 && e.Err == "" && g >= 0 && e.Used >= 0 && g > e.Used && nested < 3 {
				nested++
				delta := (g - e.Used) * 64 / 63
				for d := int64(-2); d <= 2; d++ {
					add(int64(g0) - delta + d)
				}
			}
		}
	}
	for _, v := range ls {
		delete(extra, v)
	}
	ex := make([]uint64, 0, len(extra))
	for v := range extra {
		ex = append(ex, v)
	}
	sort.Slice(ex, func(i, j int) bool { return ex[i] < ex[j] })
	return append(ls, ex...)
}

type traceReport struct {
	Programs   int            `json:"programs"`
	Runs       int            `json:"runs"`
	Events     int            `json:"events"`
	Files      []string       `json:"files"`
	ByName     map[string]int `json:"byName"`
	ByFork     map[string]int `json:"byFork"`
	ByEntry    map[string]int `json:"byEntry"`
	SweepRuns  int            `json:"sweepRuns"`
	OpsSeen    int            `json:"distinctOpcodesExecuted"`
	GoMismatch int            `json:"goSideQuickMismatch"` // informational only; TLC decides
	Sample     []progMeta     `json:"sample"`
}

func traceCmd(args []string) int {
	fs := flag.NewFlagSet("trace", flag.ExitOnError)
	outDir := fs.String("out", "", "directory for ndjson batches")
	seed := fs.Int64("seed", 1, "seed")
	n := fs.Int("n", 100, "random programs")
	forksF := fs.String("forks", "London", "forks (comma separated)")
	matrix := fs.Int("matrix", 0, "take every k-th program of the opcode x operand matrix (0 = none)")
	sweep := fs.Int("sweep", 0, "gas limits per program in the gas sweep (0 = none)")
	batches := fs.Int("batches", 8, "number of batch files")
	tracersEvery := fs.Int("tracers-every", 4, "attach the inherited tracers to every k-th program")
	jpEvery := fs.Int("jp-every", 3, "run every k-th program also with the tracer on and join points on (nothing bound)")
	limit := fs.Int("limit", 4000, "callbacks recorded per run (the rest of a longer run is cut on both sides alike)")
	_ = fs.Parse(args)
	forks := strings.Split(*forksF, ",")
	if err := os.MkdirAll(*outDir, 0o755); err != nil {
		fmt.Fprintln(os.Stderr, err)
		return 2
	}
	g := gen.New(*seed)
	var progs []*gen.Program
	for i := 0; i < *n; i++ {
		progs = append(progs, g.Next(i))
	}
	if *matrix > 0 {
		// single-opcode vectors are thinned out by -matrix; the interaction programs (pairs, nests, calls, sstore) always run
		m := gen.Matrix()
		k := 0
		for _, mp := range m {
			if mp.Name == "matrix" {
				k++
				if (k+int(*seed))%*matrix != 0 {
					continue
				}
			}
			progs = append(progs, mp)
		}
	}
	rep := &traceReport{ByName: map[string]int{}, ByFork: map[string]int{}, ByEntry: map[string]int{}}
	files := make([]*os.File, *batches)
	var fmu []sync.Mutex = make([]sync.Mutex, *batches)
	for i := range files {
		fn := filepath.Join(*outDir, fmt.Sprintf("batch%02d.ndjson", i))
		f, err := os.Create(fn)
		if err != nil {
			fmt.Fprintln(os.Stderr, err)
			return 2
		}
		files[i] = f
		rep.Files = append(rep.Files, fn)
	}
	ops := map[int]bool{}
	batchLines := make([]int, *batches)
	var mu sync.Mutex
	type job struct {
		i    int
		p    *gen.Program
		fork string
	}
	jobs := make(chan job, 64)
	var wg sync.WaitGroup
	for wk := 0; wk < runtime.NumCPU(); wk++ {
		wg.Add(1)
		go func() {
			defer wg.Done()
			for j := range jobs {
				p := j.p
				mu.Lock()
				bi := 0
				for k := range batchLines {
					if batchLines[k] < batchLines[bi] {
						bi = k
					}
				}
				batchLines[bi] += 2000 // provisional, corrected below
				mu.Unlock()
				written := 0
				withTracers := *tracersEvery > 0 && (j.i%*tracersEvery == 0 || strings.HasPrefix(p.Name, "nest:"))
				if p.Entry != "call" && p.Entry != "create" && p.Entry != "create2" {
					// CallCode/DelegateCall/StaticCall as entry points announce themselves with CaptureEnter only: the inherited tracers
					// (in both code bases) expect a CaptureStart first and dereference nil without it - a host error, not an execution
					withTracers = false
				}
				type variant struct {
					cfg string
					o   runOpts
				}
				vs := []variant{
					{"tracer", runOpts{fork: j.fork, gas: p.Gas, tracer: true, tracers: withTracers, limit: *limit}},
					{"notracer+jp", runOpts{fork: j.fork, gas: p.Gas, tracer: false, jpOn: true, limit: *limit}},
				}
				if *jpEvery > 0 && j.i%*jpEvery == 0 {
					vs = append(vs, variant{"tracer+jp", runOpts{fork: j.fork, gas: p.Gas, tracer: true, jpOn: true, limit: *limit}})
				}
				if j.i%5 == 0 && evmx.ForkIndex(j.fork) >= evmx.ForkIndex("Byzantium") {
					vs = append(vs, variant{"eips3855+3860", runOpts{fork: j.fork, gas: p.Gas, tracer: true, eips: []int{3855, 3860}, limit: *limit}})
				}
				if p.ResultOnly {
					vs = vs[1:2] // no recording tracer: only the result pair
				}
				if p.Limit > *limit {
					for k := range vs {
						vs[k].o.limit = p.Limit // a program that needs a longer recorded stream (the call-depth limit)
					}
				}
				var first runOut
				for vi, v := range vs {
					a := runArtela(p, v.o)
					ro := v.o
					ro.jpOn = false
					r := runRef(p, ro)
					if vi == 0 {
						first = a
					}
					meta := progMeta{Idx: j.i, Name: p.Name, Fork: j.fork, Entry: p.Entry, Gas: p.Gas, Cfg: v.cfg, Events: len(a.evs)}
					fmu[bi].Lock()
					nl := writeRun(files[bi], meta, a, r)
					fmu[bi].Unlock()
					written += nl
					mu.Lock()
					rep.Runs++
					rep.Events += nl
					if !reflect.DeepEqual(a.result, r.result) || len(a.evs) != len(r.evs) {
						rep.GoMismatch++
					}
					for _, e := range a.evs {
						if e.K == "step" {
							ops[e.Op] = true
						}
					}
					if len(rep.Sample) < 3 && vi == 0 && len(a.evs) > 20 {
						rep.Sample = append(rep.Sample, meta)
					}
					mu.Unlock()
				}
				if *sweep > 0 && p.Gas <= 2_000_000 && !p.ResultOnly {
					for _, lim := range sweepLimits(first.evs, p.Gas, *sweep, *seed, first.result.Gas) {
						o := runOpts{fork: j.fork, gas: lim, tracer: true, limit: *limit}
						a := runArtela(p, o)
						r := runRef(p, o)
						meta := progMeta{Idx: j.i, Name: p.Name, Fork: j.fork, Entry: p.Entry, Gas: lim, Cfg: "sweep", Events: len(a.evs)}
						fmu[bi].Lock()
						nl := writeRun(files[bi], meta, a, r)
						fmu[bi].Unlock()
						written += nl
						mu.Lock()
						rep.Runs++
						rep.SweepRuns++
						rep.Events += nl
						if !reflect.DeepEqual(a.result, r.result) || len(a.evs) != len(r.evs) {
							rep.GoMismatch++
						}
						mu.Unlock()
					}
				}
				mu.Lock()
				batchLines[bi] += written - 2000
				rep.Programs++
				rep.ByName[p.Name]++
				rep.ByFork[j.fork]++
				rep.ByEntry[p.Entry]++
				mu.Unlock()
			}
		}()
	}
	k := 0
	for i, p := range progs {
		// each program runs on one fork (rotating), every 7th on all
		if len(p.Forks) > 0 {
			for _, f := range p.Forks {
				for _, g := range forks {
					if f == g {
						jobs <- job{k, p, f}
						k++
					}
				}
			}
		} else if i%7 == 0 || p.AllForks {
			for _, f := range forks {
				jobs <- job{k, p, f}
				k++
			}
		} else {
			jobs <- job{k, p, forks[i%len(forks)]}
			k++
		}
	}
	close(jobs)
	wg.Wait()
	for _, f := range files {
		f.Close()
	}
	rep.OpsSeen = len(ops)
	raw, _ := json.MarshalIndent(rep, "", " ")
	_ = os.WriteFile(filepath.Join(*outDir, "report.json"), raw, 0o644)
	fmt.Printf("TRACE-DONE programs=%d runs=%d events=%d go-side-mismatch=%d\n", rep.Programs, rep.Runs, rep.Events, rep.GoMismatch)
	_ = context.Background
	return 0
}
