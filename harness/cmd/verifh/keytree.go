package main

// verifh keytree: replays API histories emitted by spec/KeyTreeScn.tla on a real
// vm.Tracer through its exported methods and evaluates property C11 on the
// real answers, with the model's ghost registration record as the oracle.

import (
	"bufio"
	"bytes"
	"encoding/hex"
	"encoding/json"
	"flag"
	"fmt"
	"os"
	"runtime"
	"sort"
	"strings"
	"sync"

	"github.com/artela-network/artela-evm/vm"
	"github.com/ethereum/go-ethereum/common"
	"github.com/holiman/uint256"
)

type ktOp struct {
	Op    string `json:"op"`
	Acct  string `json:"acct"`
	Name  string `json:"name"`
	PSlot int    `json:"pslot"`
	PType string `json:"ptype"`
	Slot  int    `json:"slot"`
	Off   int    `json:"off"`
	Type  string `json:"type"`
	Val   string `json:"val"`
	Res   string `json:"res"`
}

type ktChg struct {
	Idx  uint64   `json:"idx"`
	Vals []string `json:"vals"`
}

type ktReg struct {
	Acct  string   `json:"acct"`
	Path  []string `json:"path"`
	Slot  int      `json:"slot"`
	Off   int      `json:"off"`
	Type  string   `json:"type"`
	Named bool     `json:"named"`
	NType string   `json:"ntype"`
	Chg   []ktChg  `json:"chg"`
	Kids  []string `json:"kids"`
}

type ktTop struct {
	Acct string   `json:"acct"`
	Kids []string `json:"kids"`
}

type ktHistory struct {
	Hist []ktOp  `json:"hist"`
	Reg  []ktReg `json:"reg"`
	Tops []ktTop `json:"tops"`
}

type ktMismatch struct {
	Comp    string          `json:"comp"`
	Detail  string          `json:"detail"`
	History json.RawMessage `json:"history"`
}

func ktAcct(name string) common.Address {
	return common.BytesToAddress(append([]byte{0xac, 0xc0}, []byte(name)...))
}
func ktType(name string) common.Hash {
	if name == "z" {
		return common.Hash{} // the zero type id: an ordinary type as far as registrations and lookups go
	}
	return common.BytesToHash(append([]byte{0x77}, []byte(name)...))
}
func ktVal(v string) []byte { return []byte("val-" + v) }

// ktOff maps an offset of the model to the operand: values >= 1000 are class codes (2^31 ... 2^256-1, see codec.go)
func ktOff(o int) *uint256.Int { return uint256.MustFromBig(opnd(o)) }

// ktDump is every answer the exported query API gives about the keys the history mentions
// plus a few it does not: used for "modifies nothing".
func ktDump(t *vm.Tracer, h *ktHistory) string {
	sc := t.StateChanges()
	var sb strings.Builder
	accts := map[string]bool{}
	names := map[string]bool{"x": true, "y": true, "z": true}
	types := map[string]bool{"t": true, "u": true}
	slots := map[int]bool{0: true, 1: true, 2: true, 9: true}
	for _, o := range h.Hist {
		if o.Acct != "" {
			accts[o.Acct] = true
		}
		if o.Name != "" {
			names[o.Name] = true
		}
		if o.Type != "" {
			types[o.Type] = true
		}
		slots[o.Slot] = true
	}
	sa := sortedKeys(accts)
	sn := sortedKeys(names)
	st := sortedKeys(types)
	var ss []int
	for s := range slots {
		ss = append(ss, s)
	}
	sort.Ints(ss)
	chg := func(c *vm.StorageChanges) string {
		if c == nil {
			return "nil"
		}
		m := c.Changes()
		ks := make([]uint64, 0, len(m))
		for k := range m {
			ks = append(ks, k)
		}
		sort.Slice(ks, func(i, j int) bool { return ks[i] < ks[j] })
		var b strings.Builder
		for _, k := range ks {
			fmt.Fprintf(&b, "%d:[", k)
			for _, v := range m[k] {
				b.WriteString(hex.EncodeToString(v) + " ")
			}
			b.WriteString("]")
		}
		return b.String()
	}
	sortedIdx := func(x [][]byte) string {
		l := make([]string, len(x))
		for i, b := range x {
			l[i] = string(b)
		}
		sort.Strings(l)
		return strings.Join(l, ",")
	}
	var walk func(a common.Address, path []string, depth int)
	walk = func(a common.Address, path []string, depth int) {
		var idx [][]byte
		for _, p := range path[1:] {
			idx = append(idx, []byte(p))
		}
		k := sc.FindKeyIndices(a, path[0], idx...)
		if k == nil {
			return
		}
		fmt.Fprintf(&sb, "P%v=(%v,%d,%d) chg=%s kids=%s ioc=%s;", path, k.Slot(), k.Offset(), k.NodeType(), chg(sc.Variable(a, path[0], idx...)),
			sortedIdx(k.ChildrenIndices()), sortedIdx(sc.IndicesOfChanges(a, path[0], idx...)))
		if depth < 3 {
			for _, n := range sn {
				walk(a, append(append([]string{}, path...), n), depth+1)
			}
		}
	}
	for _, an := range sa {
		a := ktAcct(an)
		fmt.Fprintf(&sb, "A%s bal=%s;", an, chg(sc.Balance(a)))
		for _, n := range sn {
			walk(a, []string{n}, 1)
		}
		for _, s := range ss {
			for _, o := range []int{0, 1, 31} {
				for _, ty := range st {
					c, err := sc.Slot(a, uint256.NewInt(uint64(s)), uint256.NewInt(uint64(o)), ktType(ty))
					if c != nil || err != nil {
						fmt.Fprintf(&sb, "S(%d,%d,%s)=%s/%v;", s, o, ty, chg(c), err)
					}
				}
			}
		}
	}
	return sb.String()
}

func sortedKeys(m map[string]bool) []string {
	l := make([]string, 0, len(m))
	for k := range m {
		l = append(l, k)
	}
	sort.Strings(l)
	return l
}

func sameSet(got [][]byte, want []string) bool {
	g := make([]string, len(got))
	for i, b := range got {
		g[i] = string(b)
	}
	w := append([]string{}, want...)
	sort.Strings(g)
	sort.Strings(w)
	return strings.Join(g, "\x00") == strings.Join(w, "\x00") && len(g) == len(w)
}

func ktRun(h *ktHistory) (out []ktMismatch) {
	miss := func(comp, f string, a ...interface{}) {
		out = append(out, ktMismatch{Comp: comp, Detail: fmt.Sprintf(f, a...)})
	}
	defer func() {
		if r := recover(); r != nil {
			miss("kt.panic", "panic: %v", r)
		}
	}()
	t := vm.NewTracer()
	for i, o := range h.Hist {
		var before string
		check := o.Res == "refused" || o.Res == "dup"
		if check {
			before = ktDump(t, h)
		}
		var err error
		switch o.Op {
		case "regtop":
			err = t.SaveStateKey(ktAcct(o.Acct), nil, uint256.NewInt(uint64(o.Slot)), ktOff(o.Off), ktType(o.Type), common.Hash{}, []byte(o.Name))
		case "regnested":
			err = t.SaveStateKey(ktAcct(o.Acct), uint256.NewInt(uint64(o.PSlot)), uint256.NewInt(uint64(o.Slot)), ktOff(o.Off), ktType(o.Type), ktType(o.PType), []byte(o.Name))
		case "change":
			err = t.SaveStateChange(ktAcct(o.Acct), uint256.NewInt(uint64(o.Slot)), ktOff(o.Off), ktType(o.Type), ktVal(o.Val))
		case "enter":
			to := ktAcct("callee")
			t.SaveCall(ktAcct("caller"), &to, nil, uint256.NewInt(0), uint256.NewInt(1000))
		case "exit":
			t.ExitCall(0, nil, nil)
		}
		switch o.Res {
		case "refused":
			if err == nil {
				miss("kt.refuse", "op %d (%s) must be refused but returned no error", i, o.Op)
			}
		default:
			if err != nil {
				miss("kt.accept", "op %d (%s %s slot=%d off=%d type=%s) must be accepted but returned: %v", i, o.Op, o.Name, o.Slot, o.Off, o.Type, err)
			}
		}
		if check {
			if after := ktDump(t, h); after != before {
				miss("kt.unchanged", "op %d (%s, %s) modified the recorded state:\n before %s\n after  %s", i, o.Op, o.Res, before, after)
			}
		}
	}
	sc := t.StateChanges()
	render := func(c *vm.StorageChanges) string {
		if c == nil {
			return ""
		}
		m := c.Changes()
		ks := make([]uint64, 0, len(m))
		for k := range m {
			ks = append(ks, k)
		}
		sort.Slice(ks, func(i, j int) bool { return ks[i] < ks[j] })
		var b strings.Builder
		for _, k := range ks {
			fmt.Fprintf(&b, "%d:", k)
			for _, v := range m[k] {
				b.WriteString(string(bytes.TrimPrefix(v, []byte("val-"))) + ",")
			}
			b.WriteString(" ")
		}
		return b.String()
	}
	for _, r := range h.Reg {
		a := ktAcct(r.Acct)
		var idx [][]byte
		for _, p := range r.Path[1:] {
			idx = append(idx, []byte(p))
		}
		sort.Slice(r.Chg, func(i, j int) bool { return r.Chg[i].Idx < r.Chg[j].Idx })
		var wb strings.Builder
		for _, c := range r.Chg {
			fmt.Fprintf(&wb, "%d:%s, ", c.Idx, strings.Join(c.Vals, ","))
		}
		want := wb.String()
		if !r.Named {
			// registered under a name that already denoted another layout: only the by-slot view is judged
			bs, err := sc.Slot(a, uint256.NewInt(uint64(r.Slot)), ktOff(r.Off), ktType(r.Type))
			if err != nil {
				miss("kt.lookup", "Slot query for the registered (slot %d, off %d, type %s) failed: %v", r.Slot, r.Off, r.Type, err)
			}
			if vs := render(bs); vs != want {
				miss("kt.change", "registered (slot %d, off %d, type %s; its name already denoted another layout): journaled changes by slot {%s}, expected {%s}", r.Slot, r.Off, r.Type, vs, want)
			}
			continue
		}
		byName := sc.FindKeyIndices(a, r.Path[0], idx...)
		if byName == nil {
			miss("kt.lookup", "registered %v (slot %d off %d type %s) is not found by name path", r.Path, r.Slot, r.Off, r.Type)
			continue
		}
		if byName.Slot() == nil || byName.Slot().Uint64() != uint64(r.Slot) || int(byName.Offset()) != r.Off {
			miss("kt.lookup", "name path %v reaches slot %v off %d, registered slot %d off %d", r.Path, byName.Slot(), byName.Offset(), r.Slot, r.Off)
		}
		vn := render(sc.Variable(a, r.Path[0], idx...))
		bs, err := sc.Slot(a, uint256.NewInt(uint64(r.Slot)), uint256.NewInt(uint64(r.Off)), ktType(r.Type))
		if err != nil {
			miss("kt.lookup", "Slot query for registered %v failed: %v", r.Path, err)
		}
		vs := render(bs)
		if vn != vs {
			miss("kt.lookup", "registered %v: changes by name {%s} != changes by (slot %d, off %d, type %s) {%s}", r.Path, vn, r.Slot, r.Off, r.Type, vs)
		}
		if vn != want && vs != want {
			miss("kt.change", "registered %v: journaled changes {%s} / {%s}, expected {%s}", r.Path, vn, vs, want)
		} else if vn != want || vs != want {
			miss("kt.change", "registered %v: by name {%s}, by slot {%s}, expected {%s}", r.Path, vn, vs, want)
		}
		if !sameSet(byName.ChildrenIndices(), r.Kids) {
			miss("kt.kids", "registered %v: ChildrenIndices %q, registered children %q", r.Path, byName.ChildrenIndices(), r.Kids)
		}
		if !sameSet(sc.IndicesOfChanges(a, r.Path[0], idx...), r.Kids) {
			miss("kt.kids", "registered %v: IndicesOfChanges %q, registered children %q", r.Path, sc.IndicesOfChanges(a, r.Path[0], idx...), r.Kids)
		}
		if len(byName.Children()) != len(r.Kids) {
			miss("kt.kids", "registered %v: %d Children(), %d registered", r.Path, len(byName.Children()), len(r.Kids))
		}
		// Children() and ChildrenIndices() list the same children in the same order: the i-th child is the record the i-th index reaches
		if kids, kidx := byName.Children(), byName.ChildrenIndices(); len(kids) == len(kidx) {
			for i := range kids {
				if reached := sc.FindKeyIndices(a, r.Path[0], append(append([][]byte{}, idx...), kidx[i])...); reached != kids[i] {
					miss("kt.kids", "registered %v: Children()[%d] is not the record its index %q reaches", r.Path, i, kidx[i])
				}
				if i > 0 && bytes.Compare(kidx[i-1], kidx[i]) >= 0 {
					miss("kt.kids", "registered %v: ChildrenIndices %q not in increasing bytewise order", r.Path, kidx)
				}
			}
		} else {
			miss("kt.kids", "registered %v: %d Children() but %d ChildrenIndices()", r.Path, len(kids), len(kidx))
		}
		// node type (behaviour beyond the listed properties: reported as model drift, see lib/keytree.py)
		if r.NType != "" {
			if got := map[vm.NodeType]string{vm.RootNode: "root", vm.BranchNode: "branch", vm.DataNode: "data"}[byName.NodeType()]; got != r.NType {
				miss("kt.ntype", "registered %v: NodeType %s, the model says %s", r.Path, got, r.NType)
			}
		}
	}
	return
}

type ktReport struct {
	Histories  int                     `json:"histories"`
	Ops        int                     `json:"ops"`
	Nontrivial int                     `json:"nontrivial"`
	ByComp     map[string]int          `json:"byComp"`
	Samples    map[string][]ktMismatch `json:"samples"`
	Example    []json.RawMessage       `json:"example"`
	ByRes      map[string]int          `json:"byRes"`
	ParseErr   int                     `json:"parseErrors"`
}

func keytreeCmd(args []string) int {
	fs := flag.NewFlagSet("keytree", flag.ExitOnError)
	out := fs.String("out", "", "report file")
	one := fs.String("one", "", "replay one history (json file, possibly wrapped in a replay record)")
	maxSamples := fs.Int("samples", 5, "samples per component")
	_ = fs.Parse(args)
	if *one != "" {
		raw, err := os.ReadFile(*one)
		if err != nil {
			fmt.Fprintln(os.Stderr, err)
			return 2
		}
		var wrap struct {
			Replay *struct {
				History json.RawMessage `json:"history"`
			} `json:"replay"`
		}
		if json.Unmarshal(raw, &wrap) == nil && wrap.Replay != nil && wrap.Replay.History != nil {
			raw = wrap.Replay.History
		}
		h := &ktHistory{}
		if err := json.Unmarshal(raw, h); err != nil {
			fmt.Fprintln(os.Stderr, err)
			return 2
		}
		ms := ktRun(h)
		for _, m := range ms {
			fmt.Printf("MISMATCH %s: %s\n", m.Comp, m.Detail)
		}
		if len(ms) > 0 {
			return 1
		}
		fmt.Println("conforms")
		return 0
	}
	rep := &ktReport{ByComp: map[string]int{}, Samples: map[string][]ktMismatch{}, ByRes: map[string]int{}}
	var mu sync.Mutex
	lines := make(chan string, 1024)
	var wg sync.WaitGroup
	for i := 0; i < runtime.NumCPU(); i++ {
		wg.Add(1)
		go func() {
			defer wg.Done()
			for line := range lines {
				body := line[4 : len(line)-1]
				body = strings.ReplaceAll(body, `\"`, `"`)
				body = strings.ReplaceAll(body, `\\`, `\`)
				h := &ktHistory{}
				if err := json.Unmarshal([]byte(body), h); err != nil {
					mu.Lock()
					rep.ParseErr++
					mu.Unlock()
					continue
				}
				ms := ktRun(h)
				mu.Lock()
				rep.Histories++
				rep.Ops += len(h.Hist)
				if len(h.Reg) > 0 && len(h.Hist) > 1 {
					rep.Nontrivial++
				}
				for _, o := range h.Hist {
					rep.ByRes[o.Op+"/"+o.Res]++
				}
				seen := map[string]bool{}
				for _, m := range ms {
					if !seen[m.Comp] {
						seen[m.Comp] = true
						rep.ByComp[m.Comp]++
						if len(rep.Samples[m.Comp]) < *maxSamples {
							m.History = json.RawMessage(body)
							rep.Samples[m.Comp] = append(rep.Samples[m.Comp], m)
						}
					}
				}
				if len(rep.Example) < 2 && len(h.Hist) >= 3 && len(h.Reg) >= 2 {
					rep.Example = append(rep.Example, json.RawMessage(body))
				}
				mu.Unlock()
			}
		}()
	}
	sc := bufio.NewScanner(os.Stdin)
	sc.Buffer(make([]byte, 1<<20), 64<<20)
	for sc.Scan() {
		t := sc.Text()
		if strings.HasPrefix(t, `"KT `) {
			lines <- t
		} else {
			fmt.Println(t)
		}
	}
	close(lines)
	wg.Wait()
	fmt.Printf("KT-DONE histories=%d mismatching-components=%d\n", rep.Histories, len(rep.ByComp))
	if *out != "" {
		raw, _ := json.MarshalIndent(rep, "", " ")
		if err := os.WriteFile(*out, raw, 0o644); err != nil {
			fmt.Fprintln(os.Stderr, err)
			return 2
		}
	}
	return 0
}
