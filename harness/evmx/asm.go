package evmx

import (
	"math/big"

	"github.com/artela-network/artela-evm/vm"
	"github.com/ethereum/go-ethereum/common"
)

// Asm is a tiny byte-code builder with forward labels (PUSH2 targets).
type Asm struct {
	B      []byte
	labels map[string]int
	fix    map[int]string
}

func NewAsm() *Asm { return &Asm{labels: map[string]int{}, fix: map[int]string{}} }

func (a *Asm) Op(ops ...vm.OpCode) *Asm {
	for _, o := range ops {
		a.B = append(a.B, byte(o))
	}
	return a
}

func (a *Asm) Raw(b ...byte) *Asm { a.B = append(a.B, b...); return a }

// Push pushes the minimal big-endian encoding of v (PUSH1 0 for zero).
func (a *Asm) Push(v uint64) *Asm {
	return a.PushBytes(new(big.Int).SetUint64(v).Bytes())
}

func (a *Asm) PushBig(v *big.Int) *Asm { return a.PushBytes(v.Bytes()) }

func (a *Asm) PushBytes(b []byte) *Asm {
	if len(b) == 0 {
		b = []byte{0}
	}
	if len(b) > 32 {
		panic("push too long")
	}
	a.B = append(a.B, byte(int(vm.PUSH1)+len(b)-1))
	a.B = append(a.B, b...)
	return a
}

func (a *Asm) PushAddr(x common.Address) *Asm {
	a.B = append(a.B, byte(vm.PUSH20))
	a.B = append(a.B, x[:]...)
	return a
}

// PushLabel pushes the (2-byte) position of a label defined now or later.
func (a *Asm) PushLabel(l string) *Asm {
	a.B = append(a.B, byte(vm.PUSH2))
	a.fix[len(a.B)] = l
	a.B = append(a.B, 0, 0)
	return a
}

// Label places a JUMPDEST and names it.
func (a *Asm) Label(l string) *Asm {
	a.labels[l] = len(a.B)
	a.B = append(a.B, byte(vm.JUMPDEST))
	return a
}

func (a *Asm) Bytes() []byte {
	out := append([]byte(nil), a.B...)
	for pos, l := range a.fix {
		p, ok := a.labels[l]
		if !ok {
			panic("undefined label " + l)
		}
		out[pos] = byte(p >> 8)
		out[pos+1] = byte(p)
	}
	return out
}

// MStore32 stores a 32-byte word at off.
func (a *Asm) MStore32(off uint64, word []byte) *Asm {
	w := common.LeftPadBytes(word, 32)
	a.B = append(a.B, byte(vm.PUSH32))
	a.B = append(a.B, w...)
	a.Push(off).Op(vm.MSTORE)
	return a
}

// MStoreBytes writes data (right-padded to words) at off using MSTOREs.
func (a *Asm) MStoreBytes(off uint64, data []byte) *Asm {
	for i := 0; i < len(data); i += 32 {
		end := i + 32
		chunk := make([]byte, 32)
		if end > len(data) {
			end = len(data)
		}
		copy(chunk, data[i:end])
		a.B = append(a.B, byte(vm.PUSH32))
		a.B = append(a.B, chunk...)
		a.Push(off + uint64(i)).Op(vm.MSTORE)
	}
	return a
}

// ReturnRuntime builds init code that deploys `runtime`.
func InitCodeFor(runtime []byte, prefix []byte) []byte {
	a := NewAsm()
	a.Raw(prefix...)
	// CODECOPY(dest=0, off=<pos>, len) ; RETURN(0,len)
	// layout: prefix | PUSH2 len PUSH2 off PUSH1 0 CODECOPY PUSH2 len PUSH1 0 RETURN | runtime
	hdr := 3 + 3 + 2 + 1 + 3 + 2 + 1
	off := len(prefix) + hdr
	a.Raw(byte(vm.PUSH2), byte(len(runtime)>>8), byte(len(runtime)))
	a.Raw(byte(vm.PUSH2), byte(off>>8), byte(off))
	a.Raw(byte(vm.PUSH1), 0, byte(vm.CODECOPY))
	a.Raw(byte(vm.PUSH2), byte(len(runtime)>>8), byte(len(runtime)))
	a.Raw(byte(vm.PUSH1), 0, byte(vm.RETURN))
	a.Raw(runtime...)
	return a.Bytes()
}
