package evmx

import (
	"encoding/hex"
	"fmt"
	"math/big"
	"sync"

	"github.com/artela-network/artela-evm/vm"
	actypes "github.com/artela-network/aspect-core/types"
	"github.com/ethereum/go-ethereum/common"
	"github.com/ethereum/go-ethereum/crypto"
	"google.golang.org/protobuf/proto"
)

// Event is one observation of the real code. One flat record so that the same
// ndjson can be consumed by Go comparators and by TLC's ndJsonDeserialize.
type Event struct {
	Ev  string `json:"ev"`
	Seq int    `json:"seq"`
	Run int    `json:"run,omitempty"`

	// frames
	Top   bool   `json:"top,omitempty"`
	Kind  string `json:"kind,omitempty"`
	From  string `json:"from,omitempty"`
	To    string `json:"to,omitempty"`
	In    string `json:"in,omitempty"` // hex (literal up to 256 bytes, else keccak)
	InLen int    `json:"inLen,omitempty"`
	Gas   uint64 `json:"gas"`
	Value string `json:"value,omitempty"`

	// steps
	Pc    uint64   `json:"pc"`
	Op    int      `json:"op"`
	Cost  uint64   `json:"cost"`
	Depth int      `json:"depth"`
	Err   string   `json:"err,omitempty"`
	Stk   int      `json:"stk"`
	Tops  []string `json:"tops,omitempty"` // top of stack first, up to 7
	Msize int      `json:"msize"`
	MemH  string   `json:"memh,omitempty"`
	Rd    string   `json:"rd,omitempty"`
	Fault bool     `json:"fault,omitempty"`

	// exits
	Out     string `json:"out,omitempty"`
	OutLen  int    `json:"outLen,omitempty"`
	GasUsed uint64 `json:"gasUsed"`

	// join points / aspects
	Point  string `json:"point,omitempty"`
	N      int    `json:"n"`
	Aspect string `json:"aspect,omitempty"`
	// decoded exec message of an aspect enter
	MFrom  string `json:"mfrom,omitempty"`
	MTo    string `json:"mto,omitempty"`
	MData  string `json:"mdata,omitempty"`
	MValue string `json:"mvalue,omitempty"`
	MGas   uint64 `json:"mgas"`
	MIndex int64  `json:"mindex"`
	MRet   string `json:"mret,omitempty"`
	MErr   string `json:"merr,omitempty"`
	MBlock uint64 `json:"mblock"`
	HasMsg bool   `json:"hasMsg,omitempty"`
}

func hx(b []byte) string {
	if len(b) <= 256 {
		return hex.EncodeToString(b)
	}
	return "k:" + hex.EncodeToString(crypto.Keccak256(b))
}

// Hx is the exported form of the byte-string projection used in events and dumps.
func Hx(b []byte) string { return hx(b) }

func bigStr(v *big.Int) string {
	if v == nil {
		return "nil"
	}
	return v.String()
}

// Recorder implements vm.EVMLogger and types.AspectLogger.
type Recorder struct {
	mu     sync.Mutex
	seq    int
	Events []Event
	Steps  bool // record per-instruction events
	Mem    bool // hash memory at each step
	// Gate, when set, is called at every CaptureState (C17 schedule replay).
	Gate func(pc uint64, op vm.OpCode, depth int)
	// OnStep, when set, is called at every CaptureState with the live scope.
	OnStep func(pc uint64, op vm.OpCode, gas, cost uint64, scope *vm.ScopeContext, depth int)
	// OnFrame, when set, is called at every frame enter (true) / exit (false).
	OnFrame func(enter bool)
}

func NewRecorder(steps bool) *Recorder { return &Recorder{Steps: steps} }

func (r *Recorder) next() int { r.seq++; return r.seq }

func (r *Recorder) add(e Event) {
	if e.Seq == 0 {
		e.Seq = r.next()
	}
	if r.OnFrame != nil && (e.Ev == "Enter" || e.Ev == "Exit") {
		r.OnFrame(e.Ev == "Enter")
	}
	r.Events = append(r.Events, e)
}

func (r *Recorder) CaptureTxStart(gasLimit uint64) { r.add(Event{Ev: "TxStart", Gas: gasLimit}) }
func (r *Recorder) CaptureTxEnd(restGas uint64)    { r.add(Event{Ev: "TxEnd", Gas: restGas}) }

func (r *Recorder) CaptureStart(env *vm.EVM, from, to common.Address, create bool, input []byte, gas uint64, value *big.Int) {
	k := "CALL"
	if create {
		k = "CREATE"
	}
	r.add(Event{Ev: "Enter", Top: true, Kind: k, From: hex.EncodeToString(from[:]), To: hex.EncodeToString(to[:]), In: hx(input), InLen: len(input), Gas: gas, Value: bigStr(value)})
}

func errStr(err error) string {
	if err == nil {
		return ""
	}
	return err.Error()
}

func (r *Recorder) CaptureEnd(output []byte, gasUsed uint64, err error) {
	r.add(Event{Ev: "Exit", Top: true, Out: hx(output), OutLen: len(output), GasUsed: gasUsed, Err: errStr(err)})
}

func (r *Recorder) CaptureEnter(typ vm.OpCode, from, to common.Address, input []byte, gas uint64, value *big.Int) {
	r.add(Event{Ev: "Enter", Kind: typ.String(), From: hex.EncodeToString(from[:]), To: hex.EncodeToString(to[:]), In: hx(input), InLen: len(input), Gas: gas, Value: bigStr(value)})
}

func (r *Recorder) CaptureExit(output []byte, gasUsed uint64, err error) {
	r.add(Event{Ev: "Exit", Out: hx(output), OutLen: len(output), GasUsed: gasUsed, Err: errStr(err)})
}

func (r *Recorder) step(pc uint64, op vm.OpCode, gas, cost uint64, scope *vm.ScopeContext, rData []byte, depth int, err error, fault bool) {
	if r.Gate != nil && !fault {
		r.Gate(pc, op, depth)
	}
	if r.OnStep != nil && !fault {
		r.OnStep(pc, op, gas, cost, scope, depth)
	}
	if !r.Steps {
		return
	}
	e := Event{Ev: "Step", Pc: pc, Op: int(op), Gas: gas, Cost: cost, Depth: depth, Err: errStr(err), Fault: fault}
	if scope != nil {
		data := scope.Stack.Data()
		e.Stk = len(data)
		for i := 0; i < 7 && i < len(data); i++ {
			e.Tops = append(e.Tops, data[len(data)-1-i].Hex())
		}
		e.Msize = scope.Memory.Len()
		if r.Mem {
			e.MemH = hx(scope.Memory.Data())
		}
	}
	if len(rData) > 0 {
		e.Rd = hx(rData)
	}
	r.add(e)
}

func (r *Recorder) CaptureState(pc uint64, op vm.OpCode, gas, cost uint64, scope *vm.ScopeContext, rData []byte, depth int, err error) {
	r.step(pc, op, gas, cost, scope, rData, depth, err, false)
}

func (r *Recorder) CaptureFault(pc uint64, op vm.OpCode, gas, cost uint64, scope *vm.ScopeContext, depth int, err error) {
	r.step(pc, op, gas, cost, scope, nil, depth, err, true)
}

func (r *Recorder) CaptureAspectEnter(jp actypes.JoinPointRunType, from, to, aspectId common.Address, input []byte, gas uint64, value *big.Int, execCtx proto.Message) {
	e := Event{Ev: "AEnter", Point: jpName(jp), From: hex.EncodeToString(from[:]), To: hex.EncodeToString(to[:]), Aspect: hex.EncodeToString(aspectId[:]), In: hx(input), InLen: len(input), Gas: gas, Value: bigStr(value)}
	switch m := execCtx.(type) {
	case *actypes.PreContractCallInput:
		if c := m.GetCall(); c != nil {
			e.HasMsg = true
			e.MFrom, e.MTo, e.MData = hex.EncodeToString(c.From), hex.EncodeToString(c.To), hx(c.Data)
			e.MValue = new(big.Int).SetBytes(c.Value).String()
			e.MGas, e.MIndex = c.GetGas(), int64(c.GetIndex())
			e.MBlock = m.GetBlock().GetNumber()
		}
	case *actypes.PostContractCallInput:
		if c := m.GetCall(); c != nil {
			e.HasMsg = true
			e.MFrom, e.MTo, e.MData = hex.EncodeToString(c.From), hex.EncodeToString(c.To), hx(c.Data)
			e.MValue = new(big.Int).SetBytes(c.Value).String()
			e.MGas, e.MIndex = c.GetGas(), int64(c.GetIndex())
			e.MRet, e.MErr = hx(c.Ret), c.GetError()
			e.MBlock = m.GetBlock().GetNumber()
		}
	}
	r.add(e)
}

func (r *Recorder) CaptureAspectExit(jp actypes.JoinPointRunType, result *actypes.AspectExecutionResult) {
	r.add(Event{Ev: "AExit", Point: jpName(jp), Gas: result.Gas, Err: errStr(result.Err), Out: hx(result.Ret), OutLen: len(result.Ret)})
}

func jpName(jp actypes.JoinPointRunType) string {
	switch jp {
	case actypes.JoinPointRunType_PreContractCall:
		return "pre"
	case actypes.JoinPointRunType_PostContractCall:
		return "post"
	}
	return fmt.Sprint(int64(jp))
}
