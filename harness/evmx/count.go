package evmx

import (
	"github.com/artela-network/artela-evm/vm"
	"github.com/ethereum/go-ethereum/common"
)

// CountingState wraps a StateDB and counts storage reads and writes (C20 work counters).
type CountingState struct {
	vm.StateDB
	Reads, Writes int
}

func (c *CountingState) GetState(a common.Address, k common.Hash) common.Hash {
	c.Reads++
	return c.StateDB.GetState(a, k)
}

func (c *CountingState) GetCommittedState(a common.Address, k common.Hash) common.Hash {
	c.Reads++
	return c.StateDB.GetCommittedState(a, k)
}

func (c *CountingState) SetState(a common.Address, k, v common.Hash) {
	c.Writes++
	c.StateDB.SetState(a, k, v)
}
