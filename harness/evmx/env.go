package evmx

import (
	"context"
	"fmt"
	"math/big"

	acore "github.com/artela-network/artela-evm/core"
	"github.com/artela-network/artela-evm/vm"
	"github.com/ethereum/go-ethereum/common"
	"github.com/ethereum/go-ethereum/core/rawdb"
	"github.com/ethereum/go-ethereum/core/state"
	"github.com/ethereum/go-ethereum/core/types"
	refvm "github.com/ethereum/go-ethereum/core/vm"
	"github.com/ethereum/go-ethereum/crypto"
	"github.com/ethereum/go-ethereum/params"
)

// Forks in chronological order. "Constantinople" here is Constantinople
// without Petersburg (EIP-1283 net metering).
var Forks = []string{"Frontier", "Homestead", "Tangerine", "Spurious", "Byzantium", "Constantinople", "Petersburg", "Istanbul", "Berlin", "London", "Merge", "Shanghai", "Cancun"}

// StdForks are the rule sets C01/C02/C18 range over (up to Shanghai).
var StdForks = Forks[:12]

func ForkIndex(f string) int {
	for i, x := range Forks {
		if x == f {
			return i
		}
	}
	panic("unknown fork " + f)
}

// ChainConfig builds a configuration in which exactly the forks up to `fork`
// are active at block 10 / time 10.
func ChainConfig(fork string) *params.ChainConfig {
	n := ForkIndex(fork)
	at := func(i int) *big.Int {
		if n >= i {
			return new(big.Int)
		}
		return nil
	}
	t := func(i int) *uint64 {
		if n >= i {
			z := uint64(0)
			return &z
		}
		return nil
	}
	c := &params.ChainConfig{
		ChainID:             big.NewInt(1),
		HomesteadBlock:      at(1),
		EIP150Block:         at(2),
		EIP155Block:         at(3),
		EIP158Block:         at(3),
		ByzantiumBlock:      at(4),
		ConstantinopleBlock: at(5),
		PetersburgBlock:     at(6), // nil would mean "together with Constantinople" (see below)
		IstanbulBlock:       at(7),
		MuirGlacierBlock:    at(7),
		BerlinBlock:         at(8),
		LondonBlock:         at(9),
		ShanghaiTime:        t(11),
		CancunTime:          t(12),
	}
	if n == 5 {
		// Constantinople proper: EIP-1283 net gas metering is in force only while Petersburg is scheduled later
		c.PetersburgBlock = big.NewInt(1_000_000)
	}
	return c
}

func IsMerge(fork string) bool { return ForkIndex(fork) >= 10 }

// NewState returns a fresh in-memory StateDB.
func NewState() *state.StateDB {
	s, err := state.New(types.EmptyRootHash, state.NewDatabase(rawdb.NewMemoryDatabase()), nil)
	if err != nil {
		panic(err)
	}
	return s
}

// Env is everything needed to execute on the Artela EVM.
type Env struct {
	Fork     string
	Cfg      *params.ChainConfig
	State    *state.StateDB
	EVM      *vm.EVM
	Rec      *Recorder
	Host     *Host
	Ctx      context.Context
	Origin   common.Address
	Coinbase common.Address
	// observed transfers
	Xfers []Xfer
	// XferPos, when set, gives the position in the caller's own event stream at which a transfer happens
	XferPos func() int
	// OnTransfer, when set, is called just before a transfer is performed (a scheduling point between EVM.Call's
	// CloneWithCtx and the execution of a precompile)
	OnTransfer func(from, to common.Address)
}

// Xfer is one observation of the wrapped Transfer function.
type Xfer struct {
	Seq    int       `json:"seq"`
	From   string    `json:"from"`
	To     string    `json:"to"`
	Amt    string    `json:"amt"`
	Before [2]string `json:"before"`
	After  [2]string `json:"after"`
	Pos    int       `json:"pos"`
}

type EnvOpts struct {
	Fork      string
	State     *state.StateDB // nil: fresh
	Tracer    bool           // attach the recorder as debug tracer
	Steps     bool           // record per-instruction events
	ExtraEips []int
	ShareEips bool // hand ExtraEips to vm.Config as given (one slice shared by several EVMs) instead of a private copy
	Origin    common.Address
	GasPrice  *big.Int
	NoHost    bool // do not put a Host into the context
	// CustomTracer, when set, is installed as the debug tracer instead of the recorder
	CustomTracer vm.EVMLogger
	// WrapState, when set, wraps the StateDB handed to the EVM (observation of state reads/writes)
	WrapState func(vm.StateDB) vm.StateDB
}

var (
	DefaultOrigin   = common.HexToAddress("0x00000000000000000000000000000000000e0a01")
	DefaultCoinbase = common.HexToAddress("0x00000000000000000000000000000000000c01b5")
)

func blockHash(n uint64) common.Hash {
	return common.BytesToHash(crypto.Keccak256([]byte(new(big.Int).SetUint64(n).String())))
}

// NewEnv builds an Artela EVM on the given options, mirroring vm/runtime.NewEnv.
func NewEnv(o EnvOpts) *Env {
	InitHost(16)
	e := &Env{Fork: o.Fork, Cfg: ChainConfig(o.Fork), State: o.State, Origin: o.Origin, Coinbase: DefaultCoinbase}
	if e.State == nil {
		e.State = NewState()
	}
	if (e.Origin == common.Address{}) {
		e.Origin = DefaultOrigin
	}
	e.Rec = NewRecorder(o.Steps)
	e.Host = NewHost()
	e.Host.Rec = e.Rec
	gp := o.GasPrice
	if gp == nil {
		gp = big.NewInt(1)
	}
	bc := vm.BlockContext{
		CanTransfer: acore.CanTransfer,
		Transfer: func(db vm.StateDB, from, to common.Address, amt *big.Int) {
			x := Xfer{Seq: e.Rec.next(), From: fmt.Sprintf("%x", from[:]), To: fmt.Sprintf("%x", to[:]), Amt: amt.String()}
			x.Before = [2]string{db.GetBalance(from).String(), db.GetBalance(to).String()}
			if e.OnTransfer != nil {
				e.OnTransfer(from, to)
			}
			acore.Transfer(db, from, to, amt)
			x.After = [2]string{db.GetBalance(from).String(), db.GetBalance(to).String()}
			if e.XferPos != nil {
				x.Pos = e.XferPos()
			}
			e.Xfers = append(e.Xfers, x)
		},
		GetHash:     blockHash,
		Coinbase:    e.Coinbase,
		BlockNumber: big.NewInt(10),
		Time:        10,
		Difficulty:  big.NewInt(0x20000),
		GasLimit:    30_000_000,
		BaseFee:     big.NewInt(7),
	}
	if IsMerge(o.Fork) {
		r := common.HexToHash("0x1234567890abcdef1234567890abcdef1234567890abcdef1234567890abcdef")
		bc.Random = &r
		bc.Difficulty = big.NewInt(0)
	}
	cfg := vm.Config{ExtraEips: append([]int(nil), o.ExtraEips...)}
	if o.ShareEips {
		cfg.ExtraEips = o.ExtraEips
	}
	if o.Tracer {
		cfg.Tracer = e.Rec
	}
	if o.CustomTracer != nil {
		cfg.Tracer = o.CustomTracer
	}
	var sdb vm.StateDB = e.State
	if o.WrapState != nil {
		sdb = o.WrapState(sdb)
	}
	e.EVM = vm.NewEVM(bc, vm.TxContext{Origin: e.Origin, GasPrice: gp}, sdb, e.Cfg, cfg)
	e.Ctx = context.Background()
	if !o.NoHost {
		e.Ctx = WithHost(e.Ctx, e.Host)
	}
	return e
}

// NewEnvWithTracer is NewEnv with the given debug tracer installed.
func NewEnvWithTracer(o EnvOpts, t vm.EVMLogger) *Env {
	o.CustomTracer = t
	return NewEnv(o)
}

func (e *Env) Rules() params.Rules {
	return e.Cfg.Rules(big.NewInt(10), IsMerge(e.Fork), 10)
}

// Prepare mirrors what the state transition does before each top-level call.
func (e *Env) Prepare(to *common.Address) {
	r := e.Rules()
	e.State.Prepare(r, e.Origin, e.Coinbase, to, vm.ActivePrecompiles(r), nil)
}

// Result of an entry point, with panics caught.
type Result struct {
	Ret   []byte
	Left  uint64
	Err   error
	Addr  common.Address
	Panic string
}

func (e *Env) guard(res *Result) {
	if r := recover(); r != nil {
		res.Panic = fmt.Sprint(r)
	}
}

func (e *Env) Call(from, to common.Address, input []byte, gas uint64, value *big.Int) (res Result) {
	defer e.guard(&res)
	res.Ret, res.Left, res.Err = e.EVM.Call(e.Ctx, vm.AccountRef(from), to, input, gas, value)
	return
}

func (e *Env) Create(from common.Address, code []byte, gas uint64, value *big.Int) (res Result) {
	defer e.guard(&res)
	res.Ret, res.Addr, res.Left, res.Err = e.EVM.Create(e.Ctx, vm.AccountRef(from), code, gas, value)
	return
}

// ---------------------------------------------------------------------------
// reference EVM (go-ethereum v1.12.0)

type RefEnv struct {
	Fork  string
	Cfg   *params.ChainConfig
	State *state.StateDB
	EVM   *refvm.EVM
}

func refCanTransfer(db refvm.StateDB, addr common.Address, amount *big.Int) bool {
	return db.GetBalance(addr).Cmp(amount) >= 0
}
func refTransfer(db refvm.StateDB, sender, recipient common.Address, amount *big.Int) {
	db.SubBalance(sender, amount)
	db.AddBalance(recipient, amount)
}

func NewRefEnv(fork string, st *state.StateDB, tracer refvm.EVMLogger, extraEips []int, origin common.Address) *RefEnv {
	e := &RefEnv{Fork: fork, Cfg: ChainConfig(fork), State: st}
	if e.State == nil {
		e.State = NewState()
	}
	if (origin == common.Address{}) {
		origin = DefaultOrigin
	}
	bc := refvm.BlockContext{
		CanTransfer: refCanTransfer,
		Transfer:    refTransfer,
		GetHash:     blockHash,
		Coinbase:    DefaultCoinbase,
		BlockNumber: big.NewInt(10),
		Time:        10,
		Difficulty:  big.NewInt(0x20000),
		GasLimit:    30_000_000,
		BaseFee:     big.NewInt(7),
	}
	if IsMerge(fork) {
		r := common.HexToHash("0x1234567890abcdef1234567890abcdef1234567890abcdef1234567890abcdef")
		bc.Random = &r
		bc.Difficulty = big.NewInt(0)
	}
	cfg := refvm.Config{ExtraEips: append([]int(nil), extraEips...), Tracer: tracer}
	e.EVM = refvm.NewEVM(bc, refvm.TxContext{Origin: origin, GasPrice: big.NewInt(1)}, e.State, e.Cfg, cfg)
	return e
}

func (e *RefEnv) Rules() params.Rules {
	return e.Cfg.Rules(big.NewInt(10), IsMerge(e.Fork), 10)
}

func (e *RefEnv) Prepare(origin common.Address, to *common.Address) {
	r := e.Rules()
	e.State.Prepare(r, origin, DefaultCoinbase, to, refvm.ActivePrecompiles(r), nil)
}
