package evmx

import (
	"fmt"
	"sync"

	wasmtime "github.com/bytecodealliance/wasmtime-go/v20"
)

const watTemplate = `(module
  (memory (export "memory") 1)
  (global $bump (mut i32) (i32.const 4096))
  (func (export "allocate") (param $n i32) (result i32)
    (local $p i32)
    (local.set $p (global.get $bump))
    (global.set $bump (i32.add (global.get $bump) (local.get $n)))
    (local.get $p))
  (func (export "__aspect_start__"))
  (func (export "execute") (param i32 i32) (result i32)
    (local $i i32)
    (local.set $i (i32.const %d))
    (block $done
      (loop $l
        %s
        (local.set $i (i32.sub (local.get $i) (i32.const 1)))
        (br $l)))
    %s
    (i32.const 0)))`

var (
	wasmMu    sync.Mutex
	wasmCache = map[string][]byte{}
)

// AspectWasm compiles (and caches) the WASM byte code for an Aspect spec.
// The aspect id is made part of the code (as the loop start constant's
// companion data) only through Loop/Trap/Inf; distinct ids may share code.
func AspectWasm(a AspectSpec) ([]byte, error) {
	key := fmt.Sprintf("%d/%v/%v", a.Loop, a.Trap, a.Inf)
	wasmMu.Lock()
	defer wasmMu.Unlock()
	if w, ok := wasmCache[key]; ok {
		return w, nil
	}
	exit := "(br_if $done (i32.eqz (local.get $i)))"
	if a.Inf {
		exit = ""
	}
	trap := ""
	if a.Trap {
		trap = "unreachable"
	}
	wat := fmt.Sprintf(watTemplate, a.Loop, exit, trap)
	w, err := wasmtime.Wat2Wasm(wat)
	if err != nil {
		return nil, err
	}
	wasmCache[key] = w
	return w, nil
}
