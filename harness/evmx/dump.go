package evmx

import (
	"encoding/hex"
	"sort"

	"github.com/artela-network/artela-evm/vm"
	"github.com/ethereum/go-ethereum/common"
	"github.com/ethereum/go-ethereum/crypto"
)

// NodeDump is the projection of one call-tree node obtained only through the
// exported query API (FindCall / ParentOf / ChildrenOf).
type NodeDump struct {
	Index    uint64   `json:"index"`
	Found    bool     `json:"found"`
	From     string   `json:"from"`
	To       string   `json:"to"` // "" for creates
	Data     string   `json:"data"`
	DataH    string   `json:"-"`
	DataLen  int      `json:"-"`
	RetH     string   `json:"-"`
	RetLen   int      `json:"-"`
	Value    string   `json:"value"`
	Gas      uint64   `json:"gas"`
	Parent   int64    `json:"parent"`   // via node.ParentIndex()
	ParentQ  int64    `json:"parentq"`  // via CallTree.ParentOf(i)
	Children []uint64 `json:"children"` // via CallTree.ChildrenOf(i)
	ChildIdx []uint64 `json:"childidx"` // via node.ChildrenIndices()
	Ret      string   `json:"ret"`
	Left     uint64   `json:"left"`
	Err      string   `json:"err"`
}

type TreeDump struct {
	Root   int64      `json:"root"` // index of Root() or -1
	Cur    int64      `json:"cur"`  // index of Current() or -1
	Nodes  []NodeDump `json:"nodes"`
	Beyond []bool     `json:"beyond"` // FindCall(n), FindCall(n+1) != nil
}

// DumpTree queries indices 0.. until FindCall returns nil, then two more.
func DumpTree(t *vm.Tracer) TreeDump {
	ct := t.CallTree()
	d := TreeDump{Root: -1, Cur: -1}
	if r := ct.Root(); r != nil {
		d.Root = int64(r.Index)
	}
	if c := ct.Current(); c != nil {
		d.Cur = int64(c.Index)
	}
	i := uint64(0)
	for ; ; i++ {
		n := ct.FindCall(i)
		if n == nil {
			break
		}
		nd := NodeDump{Index: n.Index, Found: true, From: hex.EncodeToString(n.From[:]), Data: hx(n.Data), Ret: hx(n.Ret), Left: n.RemainingGas, Err: errStr(n.Err), Parent: n.ParentIndex(), ParentQ: -1}
		if n.To != nil {
			nd.To = hex.EncodeToString(n.To[:])
		}
		nd.DataLen, nd.RetLen = len(n.Data), len(n.Ret)
		if len(n.Data) > 0 {
			nd.DataH = hex.EncodeToString(crypto.Keccak256(n.Data)[:8])
		}
		if len(n.Ret) > 0 {
			nd.RetH = hex.EncodeToString(crypto.Keccak256(n.Ret)[:8])
		}
		if n.Value != nil {
			nd.Value = n.Value.ToBig().String()
		}
		if n.Gas != nil {
			nd.Gas = n.Gas.Uint64()
		}
		if p := ct.ParentOf(i); p != nil {
			nd.ParentQ = int64(p.Index)
		}
		for _, c := range ct.ChildrenOf(i) {
			nd.Children = append(nd.Children, c.Index)
		}
		nd.ChildIdx = n.ChildrenIndices()
		d.Nodes = append(d.Nodes, nd)
	}
	d.Beyond = []bool{ct.FindCall(i) != nil, ct.FindCall(i+1) != nil}
	return d
}

// ChangesDump renders a *StorageChanges as callIdx -> list of hex values,
// with the call indices sorted (the map order is not part of any property).
type ChangesDump map[uint64][]string

func DumpChanges(c *vm.StorageChanges) ChangesDump {
	if c == nil {
		return nil
	}
	out := ChangesDump{}
	for k, v := range c.Changes() {
		l := make([]string, len(v))
		for i, b := range v {
			l[i] = hex.EncodeToString(b)
		}
		out[k] = l
	}
	return out
}

func SortedKeys(c ChangesDump) []uint64 {
	ks := make([]uint64, 0, len(c))
	for k := range c {
		ks = append(ks, k)
	}
	sort.Slice(ks, func(i, j int) bool { return ks[i] < ks[j] })
	return ks
}

func Addr(s string) common.Address { return common.HexToAddress(s) }
