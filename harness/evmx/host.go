// Package evmx is the binding layer between the TLA+ specifications in
// /verif/spec and the real artela-evm code: host initialisation, Aspect
// bindings, environments for every fork, recorders that observe the real code
// only through its public extension points, and projections of the real state
// into the vocabulary of the specifications.
package evmx

import (
	"context"
	"errors"
	"fmt"
	"sync"

	"github.com/artela-network/artela-evm/vm"
	"github.com/artela-network/aspect-core/djpm"
	actypes "github.com/artela-network/aspect-core/types"
	rttypes "github.com/artela-network/aspect-runtime/types"
	"github.com/ethereum/go-ethereum/common"
)

// ---------------------------------------------------------------------------
// logger for the Aspect runtime (silent)

type nopLogger struct{}

func (nopLogger) Debug(string, ...interface{})         {}
func (nopLogger) Info(string, ...interface{})          {}
func (nopLogger) Error(string, ...interface{})         {}
func (l nopLogger) With(...interface{}) rttypes.Logger { return l }

// ---------------------------------------------------------------------------
// per-run host state travelling in the context

type hostKey struct{}

// AspectSpec describes one Aspect bound to a join point of a contract.
type AspectSpec struct {
	ID   string `json:"id"`   // hex address of the Aspect
	Loop int    `json:"loop"` // iterations of the burn loop (0 = none)
	Trap bool   `json:"trap"` // executes `unreachable` after the loop
	Inf  bool   `json:"inf"`  // loops forever: runs out of gas
}

// Binding says what the provider answers for (contract, point).
type Binding struct {
	Aspects []AspectSpec
	ProvErr string // non-empty: provider itself fails with this text
}

// Firing is one invocation of the provider = one join point firing.
type Firing struct {
	Seq      int    `json:"seq"`
	Contract string `json:"contract"`
	Point    string `json:"point"`
	N        int    `json:"n"`
	ProvErr  string `json:"perr,omitempty"`
}

// HostWrite etc. record what reached the context callbacks.
type HostCall struct {
	Seq   int    `json:"seq"`
	Kind  string `json:"kind"` // read | write | sender
	Addr  string `json:"addr,omitempty"`
	Key   string `json:"key,omitempty"` // hex of key bytes
	Value string `json:"value,omitempty"`
	Hash  string `json:"hash,omitempty"`
}

// Host is the per-run state the global provider and callbacks consult.
type Host struct {
	mu       sync.Mutex
	Bindings map[string]Binding // key: lower-hex contract + "/" + pre|post
	OnFire   func(f Firing)     // called under mu
	seq      *int
	Firings  []Firing
	Calls    []HostCall
	// answers of the context callbacks
	ReadAnswer   func(addr common.Address, key string) ([]byte, error)
	WriteAnswer  func(addr common.Address, key string, val []byte) error
	SenderAnswer func(h common.Hash) (common.Address, error)
	Rec          *Recorder
	// FailAt > 0: the FailAt-th firing (1-based) fails at provider level with FailErr
	FailAt  int
	FailErr string
}

func NewHost() *Host { return &Host{Bindings: map[string]Binding{}} }

func (h *Host) nextSeq() int {
	if h.Rec != nil {
		return h.Rec.next()
	}
	return len(h.Firings) + len(h.Calls)
}

func BindKey(contract common.Address, point string) string {
	return fmt.Sprintf("%x/%s", contract[:], point)
}

func WithHost(ctx context.Context, h *Host) context.Context {
	return context.WithValue(ctx, hostKey{}, h)
}

func hostOf(ctx context.Context) *Host {
	h, _ := ctx.Value(hostKey{}).(*Host)
	return h
}

// ---------------------------------------------------------------------------
// the global provider

type provider struct{}

func pointName(p actypes.PointCut) string {
	switch p {
	case actypes.PRE_CONTRACT_CALL_METHOD:
		return "pre"
	case actypes.POST_CONTRACT_CALL_METHOD:
		return "post"
	}
	return string(p)
}

func (provider) GetTxBondAspects(ctx context.Context, contract common.Address, point actypes.PointCut) ([]*actypes.AspectCode, error) {
	h := hostOf(ctx)
	if h == nil {
		return nil, nil
	}
	h.mu.Lock()
	defer h.mu.Unlock()
	b := h.Bindings[BindKey(contract, pointName(point))]
	if h.FailAt > 0 && len(h.Firings)+1 == h.FailAt {
		b = Binding{ProvErr: h.FailErr}
	}
	f := Firing{Seq: h.nextSeq(), Contract: fmt.Sprintf("%x", contract[:]), Point: pointName(point), N: len(b.Aspects), ProvErr: b.ProvErr}
	h.Firings = append(h.Firings, f)
	if h.OnFire != nil {
		h.OnFire(f)
	}
	if h.Rec != nil {
		h.Rec.add(Event{Ev: "JP", Seq: f.Seq, To: f.Contract, Point: f.Point, N: f.N, Err: f.ProvErr})
	}
	if b.ProvErr != "" {
		return nil, errors.New(b.ProvErr)
	}
	out := make([]*actypes.AspectCode, 0, len(b.Aspects))
	for _, a := range b.Aspects {
		code, err := AspectWasm(a)
		if err != nil {
			return nil, fmt.Errorf("harness: cannot build aspect: %v", err)
		}
		out = append(out, &actypes.AspectCode{AspectId: a.ID, Version: 1, Code: code})
	}
	return out, nil
}

func (provider) GetAccountVerifiers(context.Context, common.Address) ([]*actypes.AspectCode, error) {
	return nil, nil
}
func (provider) GetLatestBlock() int64 { return 1 }

var hostOnce sync.Once

// InitHost installs the process-wide Aspect instance, runtime pools and the
// context callbacks. Idempotent. poolCap > 0 enables runtime caching.
func InitHost(poolCap int32) {
	hostOnce.Do(func() {
		djpm.NewAspect(provider{}, nopLogger{})
		actypes.InitRuntimePool(context.Background(), nopLogger{}, poolCap, poolCap)
		actypes.IsCommit = func(context.Context) bool { return true }
		actypes.GetAspectContext = func(ctx context.Context, addr common.Address, key string) ([]byte, error) {
			h := hostOf(ctx)
			if h == nil {
				return nil, nil
			}
			h.mu.Lock()
			h.Calls = append(h.Calls, HostCall{Seq: h.nextSeq(), Kind: "read", Addr: fmt.Sprintf("%x", addr[:]), Key: fmt.Sprintf("%x", key)})
			fn := h.ReadAnswer
			h.mu.Unlock()
			if fn != nil {
				return fn(addr, key)
			}
			return nil, nil
		}
		actypes.SetAspectContext = func(ctx context.Context, addr common.Address, key string, val []byte) error {
			h := hostOf(ctx)
			if h == nil {
				return nil
			}
			h.mu.Lock()
			h.Calls = append(h.Calls, HostCall{Seq: h.nextSeq(), Kind: "write", Addr: fmt.Sprintf("%x", addr[:]), Key: fmt.Sprintf("%x", key), Value: fmt.Sprintf("%x", val)})
			fn := h.WriteAnswer
			h.mu.Unlock()
			if fn != nil {
				return fn(addr, key, val)
			}
			return nil
		}
		actypes.JITSenderAspectByContext = func(ctx context.Context, hash common.Hash) (common.Address, error) {
			h := hostOf(ctx)
			if h == nil {
				return common.Address{}, nil
			}
			h.mu.Lock()
			h.Calls = append(h.Calls, HostCall{Seq: h.nextSeq(), Kind: "sender", Hash: fmt.Sprintf("%x", hash[:])})
			fn := h.SenderAnswer
			h.mu.Unlock()
			if fn != nil {
				return fn(hash)
			}
			return common.Address{}, nil
		}
	})
}

var _ = vm.STOP
