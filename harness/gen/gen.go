// Package gen generates standard EVM programs (no Artela opcodes, no Artela precompiles) for the
// refinement checks against go-ethereum v1.12.0: structured stack-balanced snippets over the whole
// standard opcode set with boundary-biased operands, calls of every kind among a few contracts,
// precompiles 1-9, creates, self-destructs, logs; byte-level mutations; raw random bytes; and a
// systematic opcode x operand-class matrix.
package gen

import (
	"fmt"
	"math/big"
	"math/rand"
	"strings"

	"github.com/ethereum/go-ethereum/common"
	"github.com/ethereum/go-ethereum/crypto"
)

// Program is one transaction-like execution on a prepared state.
type Program struct {
	Name       string
	Contracts  map[common.Address][]byte
	Balances   map[common.Address]*big.Int
	Storage    map[common.Address]map[common.Hash]common.Hash
	Entry      string // call | callcode | delegatecall | staticcall | create | create2
	To         common.Address
	Input      []byte // calldata or init code
	Value      *big.Int
	Gas        uint64
	WarmAddrs  []common.Address
	WarmSlots  []common.Hash // of To
	ResultOnly bool          // run without the recording tracer only: the result pair is all that is compared (long programs, many of them)
	Limit      int           // events to record when more than the recorder's default are needed
	Forks      []string      // run on exactly these forks (those of them the plan contains)
	AllForks   bool          // run on every fork of the plan (fork-dependent gas rules), not on one in rotation
}

var (
	CA = common.HexToAddress("0x00000000000000000000000000000000000a0001")
	CB = common.HexToAddress("0x00000000000000000000000000000000000b0002")
	CC = common.HexToAddress("0x00000000000000000000000000000000000c0003")
	NX = common.HexToAddress("0x00000000000000000000000000000000000d0004") // never exists
	EO = common.HexToAddress("0x00000000000000000000000000000000000e0a01") // origin
)

var boundary = []string{"0", "1", "2", "1f", "20", "21", "ff", "100", "7fffffff", "80000000", "ffffffff", "7fffffffffffffff",
	"8000000000000000", "ffffffffffffffff", "10000000000000000",
	"7fffffffffffffffffffffffffffffffffffffffffffffffffffffffffffffff",
	"8000000000000000000000000000000000000000000000000000000000000000",
	"ffffffffffffffffffffffffffffffffffffffffffffffffffffffffffffffff"}

type G struct {
	R *rand.Rand
	// Artela: also generate the journal opcodes 0xe0-0xe7, TLOAD/TSTORE/MCOPY and calls to the Artela precompiles
	// 0x64-0x66 with arbitrary operands and payloads, and do not sanitise the code (crash / work fuzzing, C03 C20)
	Artela bool
}

func New(seed int64) *G { return &G{R: rand.New(rand.NewSource(seed))} }

func (g *G) word() []byte {
	switch g.R.Intn(10) {
	case 0, 1, 2, 3:
		b, _ := new(big.Int).SetString(boundary[g.R.Intn(len(boundary))], 16)
		return b.Bytes()
	case 4, 5:
		return big.NewInt(int64(g.R.Intn(300))).Bytes()
	case 6:
		b := make([]byte, 32)
		g.R.Read(b)
		return b
	case 7:
		b := make([]byte, 1+g.R.Intn(8))
		g.R.Read(b)
		return b
	default:
		return big.NewInt(int64(g.R.Intn(4))).Bytes()
	}
}

type code struct{ b []byte }

func (c *code) op(ops ...byte) *code { c.b = append(c.b, ops...); return c }
func (c *code) push(v []byte) *code {
	for len(v) > 1 && v[0] == 0 {
		v = v[1:]
	}
	if len(v) == 0 {
		v = []byte{0}
	}
	if len(v) > 32 {
		v = v[len(v)-32:]
	}
	c.b = append(c.b, byte(0x60+len(v)-1))
	c.b = append(c.b, v...)
	return c
}
func (c *code) pushN(n uint64) *code { return c.push(new(big.Int).SetUint64(n).Bytes()) }
func (c *code) pushAddr(a common.Address) *code {
	c.b = append(c.b, 0x73)
	c.b = append(c.b, a[:]...)
	return c
}

// fin consumes the value on top of the stack: mostly by folding it into an accumulator word in memory (0x7e0) that the
// terminators return or store, so that a wrong intermediate value shows in the result, sometimes by a plain POP.
func (g *G) fin(c *code) {
	if g.R.Intn(4) == 0 {
		c.op(0x50)
		return
	}
	c.op(0x61, 0x07, 0xe0, 0x51, 0x18, 0x61, 0x07, 0xe0, 0x52)
}

func (g *G) smallOff() uint64 {
	switch g.R.Intn(8) {
	case 0:
		return 0
	case 1:
		return 31
	case 2:
		return 32
	case 3:
		return uint64(g.R.Intn(200))
	case 4:
		return uint64(1000 + g.R.Intn(3000))
	default:
		return uint64(g.R.Intn(96))
	}
}

func (g *G) target() common.Address {
	switch g.R.Intn(12) {
	case 0, 1, 2:
		return CA
	case 3, 4, 5:
		return CB
	case 6, 7:
		return CC
	case 8:
		return NX
	case 9:
		return EO
	default:
		return common.BytesToAddress([]byte{byte(1 + g.R.Intn(9))}) // standard precompiles 1..9
	}
}

var binOps = []byte{0x01, 0x02, 0x03, 0x04, 0x05, 0x06, 0x07, 0x0a, 0x0b, 0x10, 0x11, 0x12, 0x13, 0x14, 0x16, 0x17, 0x18, 0x1a, 0x1b, 0x1c, 0x1d}
var envOps = []byte{0x30, 0x32, 0x33, 0x34, 0x36, 0x38, 0x3a, 0x3d, 0x41, 0x42, 0x43, 0x44, 0x45, 0x46, 0x47, 0x48, 0x58, 0x59, 0x5a, 0x5f}

// snippet appends one stack-neutral piece of code.
// artelaSnippet: one Artela-specific instruction with arbitrary operands (stack-neutral when it succeeds)
func (g *G) artelaSnippet(c *code) {
	pops := []int{3, 4, 6, 5, 6, 5, 4, 2}
	switch g.R.Intn(6) {
	case 0, 1, 2:
		op := g.R.Intn(8)
		if g.R.Intn(3) == 0 {
			// a plausible name in memory first
			c.push([]byte{byte(g.R.Intn(40))}).pushN(0xC0).op(0x52)
			c.push(g.word()).pushN(0xE0).op(0x52)
		}
		for i := 0; i < pops[op]; i++ {
			switch g.R.Intn(4) {
			case 0:
				c.pushN(0xC0)
			case 1:
				c.pushN(uint64(g.R.Intn(40)))
			default:
				c.push(g.word())
			}
		}
		c.op(byte(0xe0 + op))
	case 3:
		// call of any kind to 0x64 / 0x65 / 0x66 with an arbitrary payload region
		kind := []byte{0xf1, 0xf2, 0xf4, 0xfa}[g.R.Intn(4)]
		for i := 0; i < 1+g.R.Intn(6); i++ {
			c.push(g.word()).pushN(uint64(32 * g.R.Intn(8))).op(0x52)
		}
		c.pushN(uint64(g.R.Intn(64))).pushN(g.smallOff()).pushN(uint64(g.R.Intn(300))).pushN(uint64(g.R.Intn(64)))
		if kind == 0xf1 || kind == 0xf2 {
			c.pushN(uint64(g.R.Intn(2)))
		}
		c.pushAddr(common.BytesToAddress([]byte{byte(0x64 + g.R.Intn(3))})).op(0x5a, kind)
		g.fin(c)
	case 4:
		c.push(g.word()).push(g.word()).op(0x5d) // TSTORE
		c.push(g.word()).op(0x5c)                // TLOAD
		g.fin(c)
	default:
		c.push(g.word()).push(g.word()).push(g.word()).op(0x5e) // MCOPY
	}
}

func (g *G) snippet(c *code, depth int) {
	if g.Artela && g.R.Intn(3) == 0 {
		g.artelaSnippet(c)
		return
	}
	switch g.R.Intn(30) {
	case 0, 1, 2, 3:
		c.push(g.word()).push(g.word()).op(binOps[g.R.Intn(len(binOps))])
		g.fin(c)
	case 4:
		c.push(g.word()).push(g.word()).push(g.word()).op([]byte{0x08, 0x09}[g.R.Intn(2)])
		g.fin(c)
	case 5:
		c.push(g.word()).op([]byte{0x15, 0x19}[g.R.Intn(2)])
		g.fin(c)
	case 6, 7:
		c.op(envOps[g.R.Intn(len(envOps))])
		g.fin(c)
	case 8:
		c.push(g.word()).pushN(g.smallOff()).op(0x52) // MSTORE
	case 9:
		c.pushN(g.smallOff()).op(0x51) // MLOAD
		g.fin(c)
	case 10:
		c.push(g.word()).pushN(g.smallOff()).op(0x53) // MSTORE8
	case 11:
		c.pushN(uint64(g.R.Intn(100))).pushN(g.smallOff()).op(0x20) // KECCAK256
		g.fin(c)
	case 12:
		// CALLDATACOPY / CODECOPY / RETURNDATACOPY(may be out of bounds)
		op := []byte{0x37, 0x39, 0x3e}[g.R.Intn(3)]
		c.pushN(uint64(g.R.Intn(70))).pushN(uint64(g.R.Intn(40))).pushN(g.smallOff()).op(op)
	case 13:
		c.pushN(uint64(g.R.Intn(40))).pushN(uint64(g.R.Intn(40))).pushN(g.smallOff()).pushAddr(g.target()).op(0x3c) // EXTCODECOPY
	case 14:
		c.pushAddr(g.target()).op([]byte{0x31, 0x3b, 0x3f}[g.R.Intn(3)]) // BALANCE EXTCODESIZE EXTCODEHASH
		g.fin(c)
	case 15, 16, 17:
		c.pushN(uint64(g.R.Intn(3))).pushN(uint64(g.R.Intn(3))).op(0x55) // SSTORE(key, val)
	case 18:
		c.pushN(uint64(g.R.Intn(4))).op(0x54) // SLOAD
		g.fin(c)
	case 19:
		n := g.R.Intn(5)
		for i := 0; i < n; i++ {
			c.push(g.word())
		}
		c.pushN(uint64(g.R.Intn(60))).pushN(g.smallOff()).op(byte(0xa0 + n))
	case 20:
		c.push(g.word()).op(0x35) // CALLDATALOAD
		g.fin(c)
	case 21:
		c.push(g.word()).op(0x40) // BLOCKHASH
		g.fin(c)
	case 22:
		// DUP / SWAP
		c.push(g.word()).push(g.word()).op(byte(0x80+g.R.Intn(2)), byte(0x90), 0x50, 0x50, 0x50)
	case 23, 24, 25:
		if depth > 0 {
			g.callSnippet(c)
		} else {
			c.op(0x5b)
		}
	case 26:
		if depth > 0 {
			g.createSnippet(c)
		}
	case 27:
		// bounded loop: PUSH n; JUMPDEST; PUSH1 1; SWAP1; SUB; DUP1; PUSH2 dest; JUMPI; POP
		n := uint64(1 + g.R.Intn(4))
		c.pushN(n)
		dest := len(c.b)
		c.op(0x5b).pushN(1).op(0x90, 0x03, 0x80)
		c.op(0x61, byte(dest>>8), byte(dest)).op(0x57, 0x50)
	case 28:
		// conditional skip over a snippet
		c.push(g.word())
		c.op(0x61, 0, 0)
		fix := len(c.b) - 2
		c.op(0x57)
		c.push(g.word()).op(0x50)
		d := len(c.b)
		c.op(0x5b)
		c.b[fix], c.b[fix+1] = byte(d>>8), byte(d)
	default:
		c.op(0x5b)
	}
}

func (g *G) callSnippet(c *code) {
	kind := []byte{0xf1, 0xf1, 0xf2, 0xf4, 0xfa}[g.R.Intn(5)]
	argLen, retLen := uint64(g.R.Intn(40)), uint64(g.R.Intn(40))
	c.pushN(retLen).pushN(g.smallOff()).pushN(argLen).pushN(g.smallOff())
	if kind == 0xf1 || kind == 0xf2 {
		switch g.R.Intn(6) {
		case 0:
			c.pushN(1)
		case 1:
			c.pushN(1 << 40)
		default:
			c.pushN(0)
		}
	}
	c.pushAddr(g.target())
	switch g.R.Intn(6) {
	case 0:
		c.pushN(0)
	case 1:
		c.pushN(uint64(g.R.Intn(5000)))
	case 2:
		c.pushN(uint64(20000 + g.R.Intn(40000)))
	default:
		c.op(0x5a) // GAS
	}
	c.op(kind)
	if g.R.Intn(3) == 0 {
		// use the return data
		c.op(0x3d)
		g.fin(c)
		c.pushN(uint64(g.R.Intn(48))).pushN(uint64(g.R.Intn(8))).pushN(g.smallOff()).op(0x3e)
	}
	g.fin(c)
}

func (g *G) initCode() []byte {
	ic := &code{}
	switch g.R.Intn(7) {
	case 0:
		ic.pushN(1).pushN(0).op(0x55)                                   // SSTORE then fallthrough
		ic.push([]byte{0x60, 0x00, 0x60, 0x00, 0xf3}).pushN(0).op(0x52) // runtime at mem[27..32)
		ic.pushN(5).pushN(27).op(0xf3)
	case 1:
		ic.pushN(0).pushN(0).op(0xfd) // REVERT
	case 2:
		ic.op(0xfe)
	case 3:
		ic.push([]byte{0xef, 0x00}).pushN(0).op(0x52).pushN(2).pushN(30).op(0xf3) // 0xEF prefix
	case 4:
		ic.pushN(0x6001).pushN(0).op(0xf3) // too large
	case 5:
		ic.op(0x00) // empty runtime
	default:
		for i := 0; i < 3; i++ {
			g.snippet(ic, g.R.Intn(2))
		}
		ic.push([]byte{0x00}).pushN(0).op(0x53).pushN(1).pushN(0).op(0xf3)
	}
	return ic.b
}

func (g *G) createSnippet(c *code) {
	ic := g.initCode()
	off := uint64(0x400 + 32*g.R.Intn(4))
	for i := 0; i < len(ic); i += 32 {
		chunk := make([]byte, 32)
		copy(chunk, ic[i:])
		c.b = append(c.b, 0x7f)
		c.b = append(c.b, chunk...)
		c.pushN(off + uint64(i)).op(0x52)
	}
	val := uint64(0)
	if g.R.Intn(4) == 0 {
		val = 1
	}
	if g.R.Intn(2) == 0 {
		c.pushN(uint64(len(ic))).pushN(off).pushN(val).op(0xf0)
	} else {
		c.pushN(uint64(g.R.Intn(3))).pushN(uint64(len(ic))).pushN(off).pushN(val).op(0xf5)
	}
	g.fin(c)
	if g.R.Intn(2) == 0 {
		// the return-data buffer after a create is observable too
		c.op(0x3d)
		g.fin(c)
		if g.R.Intn(2) == 0 {
			c.pushN(uint64(1 + g.R.Intn(32))).pushN(0).pushN(g.smallOff()).op(0x3e)
		}
	}
}

func (g *G) terminator(c *code) {
	switch g.R.Intn(14) {
	case 10, 11, 12:
		c.pushN(32).pushN(0x7e0).op(0xf3) // return the accumulator
	case 13:
		c.pushN(0x7e0).op(0x51).pushN(9).op(0x55, 0x00) // store the accumulator
	case 0, 1, 2:
		c.op(0x00)
	case 3, 4, 5:
		c.pushN(uint64(g.R.Intn(64))).pushN(g.smallOff()).op(0xf3)
	case 6:
		c.pushN(uint64(g.R.Intn(64))).pushN(g.smallOff()).op(0xfd)
	case 7:
		c.op(0xfe)
	case 8:
		c.pushAddr(g.target()).op(0xff)
	default:
		// fall off the end
	}
}

// Contract builds one contract body of n snippets.
func (g *G) Contract(n, depth int) []byte {
	c := &code{}
	for i := 0; i < n; i++ {
		g.snippet(c, depth)
	}
	g.terminator(c)
	return c.b
}

// Sanitize removes every byte that is an Artela-only opcode (0xe0-0xe7) so that neither code nor push data
// can ever execute one after mutations shift the instruction alignment (the property is about standard programs).
func Sanitize(code []byte) []byte {
	out := append([]byte(nil), code...)
	for i, b := range out {
		if b >= 0xe0 && b <= 0xe7 {
			out[i] = b - 0x10 // 0xd0-0xd7: undefined in both implementations
		}
		// bytes that one of the two code bases gives a (Cancun) name to and the other does not: not standard up to Shanghai
		if b == 0xb3 || b == 0xb4 || b == 0x5c || b == 0x5d || b == 0x5e {
			out[i] = 0xc0 | (b & 0x0f) // 0xc3 0xc4 0xcc 0xcd 0xce: undefined in both
		}
	}
	return out
}

func (g *G) mutate(code []byte) []byte {
	out := append([]byte(nil), code...)
	if len(out) == 0 {
		return out
	}
	for k := 0; k < 1+g.R.Intn(3); k++ {
		switch g.R.Intn(4) {
		case 0:
			out[g.R.Intn(len(out))] = byte(g.R.Intn(256))
		case 1:
			i := g.R.Intn(len(out))
			out = append(out[:i], out[i+1:]...)
			if len(out) == 0 {
				return out
			}
		case 2:
			i := g.R.Intn(len(out))
			out = append(out[:i], append([]byte{byte(g.R.Intn(256))}, out[i:]...)...)
		default:
			out = out[:1+g.R.Intn(len(out))]
		}
	}
	return out
}

var entries = []string{"call", "call", "call", "call", "callcode", "delegatecall", "staticcall", "create", "create2"}

// Next returns the next random program. kind: 0 structured, 1 mutated, 2 raw bytes (chosen at random).
func (g *G) Next(i int) *Program {
	p := &Program{Contracts: map[common.Address][]byte{}, Balances: map[common.Address]*big.Int{}, Storage: map[common.Address]map[common.Hash]common.Hash{},
		Value: big.NewInt(0), Gas: 1_000_000}
	kind := g.R.Intn(10)
	mk := func(n, d int) []byte {
		switch {
		case kind < 6:
			return g.Contract(n, d)
		case kind < 9:
			return g.mutate(g.Contract(n, d))
		default:
			b := make([]byte, 1+g.R.Intn(60))
			g.R.Read(b)
			return b
		}
	}
	if g.Artela {
		defer func() {
			// raw (unsanitised) code: regenerate the three contracts without the standard-only filter
		}()
	}
	p.Name = []string{"structured", "structured", "structured", "structured", "structured", "structured", "mutated", "mutated", "mutated", "raw"}[kind]
	san := Sanitize
	if g.Artela {
		san = func(b []byte) []byte { return b }
	}
	p.Contracts[CA] = san(mk(4+g.R.Intn(10), 2))
	p.Contracts[CB] = san(mk(3+g.R.Intn(8), 1))
	p.Contracts[CC] = san(mk(2+g.R.Intn(6), 1))
	p.Balances[EO] = big.NewInt(1 << 50)
	p.Balances[CA] = big.NewInt(int64(g.R.Intn(3)))
	p.Balances[CB] = big.NewInt(int64(g.R.Intn(2)))
	for _, a := range []common.Address{CA, CB} {
		if g.R.Intn(2) == 0 {
			p.Storage[a] = map[common.Hash]common.Hash{}
			for k := 0; k < 3; k++ {
				if g.R.Intn(2) == 0 {
					p.Storage[a][common.BigToHash(big.NewInt(int64(k)))] = common.BigToHash(big.NewInt(int64(1 + g.R.Intn(2))))
				}
			}
		}
	}
	p.Entry = entries[g.R.Intn(len(entries))]
	p.To = CA
	p.Input = make([]byte, g.R.Intn(70))
	g.R.Read(p.Input)
	if p.Entry == "create" || p.Entry == "create2" {
		p.Input = san(g.initCode())
	}
	if g.R.Intn(5) == 0 && (p.Entry == "call" || p.Entry == "callcode" || p.Entry == "create" || p.Entry == "create2") {
		p.Value = big.NewInt(int64(1 + g.R.Intn(3)))
	}
	switch g.R.Intn(8) {
	case 0:
		p.Gas = uint64(100 + g.R.Intn(3000))
	case 1:
		p.Gas = uint64(20000 + g.R.Intn(60000))
	case 2:
		p.Gas = 30_000_000
	}
	if g.R.Intn(3) == 0 {
		p.WarmAddrs = []common.Address{CB, NX}
		p.WarmSlots = []common.Hash{common.BigToHash(big.NewInt(1))}
	}
	return p
}

// ---------------------------------------------------------------------------
// opcode x operand-class matrix: one micro-program per (opcode, operand tuple)

var classWords = []string{"0", "1", "2", "1f", "20", "21", "ff", "100", "80000000", "7fffffffffffffff", "ffffffffffffffff", "10000000000000000",
	"8000000000000000000000000000000000000000000000000000000000000000", "ffffffffffffffffffffffffffffffffffffffffffffffffffffffffffffffff",
	"ffffffffffffffdf", "ffffffffffffffe0", "ffffffffffffffe1"} // offset + 32 lands on 2^64-1, 2^64, 2^64+1: the word-size rounding boundary (appended: indices 12, 13 are used by name)

func cw(i int) []byte {
	b, _ := new(big.Int).SetString(classWords[i], 16)
	return b.Bytes()
}

// Matrix returns micro-programs: pushes operands, executes the opcode once, stores up to two results, returns memory.
func Matrix() []*Program {
	var out []*Program
	mk := func(name string, body []byte) {
		// hand-built straight-line code: push data is never executed, so it is left as it is (Sanitize would change operand values)
		p := &Program{Name: name, Contracts: map[common.Address][]byte{CA: body, CB: {0x60, 0x01, 0x60, 0x00, 0x52, 0x60, 0x20, 0x60, 0x00, 0xf3}},
			Balances: map[common.Address]*big.Int{EO: big.NewInt(1 << 50), CA: big.NewInt(5)}, Storage: map[common.Address]map[common.Hash]common.Hash{},
			Entry: "call", To: CA, Input: []byte{1, 2, 3, 4, 5, 6, 7, 8, 9, 10, 11, 12, 13, 14, 15, 16, 17, 18, 19, 20, 21, 22, 23, 24, 25, 26, 27, 28, 29, 30, 31, 32, 33, 34, 35, 36, 37, 38, 39, 40}, Value: big.NewInt(0), Gas: 500_000}
		out = append(out, p)
	}
	n := len(classWords)
	// binary ops
	for _, op := range []byte{0x01, 0x02, 0x03, 0x04, 0x05, 0x06, 0x07, 0x0a, 0x0b, 0x10, 0x11, 0x12, 0x13, 0x14, 0x16, 0x17, 0x18, 0x1a, 0x1b, 0x1c, 0x1d} {
		for i := 0; i < n; i++ {
			for j := 0; j < n; j++ {
				c := &code{}
				c.push(cw(j)).push(cw(i)).op(op).pushN(0).op(0x52).pushN(32).pushN(0).op(0xf3)
				mk("matrix", c.b)
			}
		}
	}
	// ternary ops on a coarser grid
	for _, op := range []byte{0x08, 0x09} {
		for i := 0; i < n; i += 2 {
			for j := 0; j < n; j += 2 {
				for k := 0; k < n; k += 2 {
					c := &code{}
					c.push(cw(k)).push(cw(j)).push(cw(i)).op(op).pushN(0).op(0x52).pushN(32).pushN(0).op(0xf3)
					mk("matrix", c.b)
				}
			}
		}
	}
	// unary ops, and one-operand reads
	for _, op := range []byte{0x15, 0x19, 0x35, 0x40, 0x51, 0x54, 0x31, 0x3b, 0x3f} {
		for i := 0; i < n; i++ {
			c := &code{}
			c.push(cw(i)).op(op).pushN(0).op(0x52).op(0x59).pushN(32).op(0x52).pushN(64).pushN(0).op(0xf3)
			mk("matrix", c.b)
		}
	}
	// memory / copy opcodes: (dest, offset, size) classes restricted to what is affordable + a few that are not
	small := []int{0, 1, 4, 5, 7}
	for _, op := range []byte{0x37, 0x39, 0x3e} {
		for _, a := range small {
			for _, b := range append(small, 9, 11) {
				for _, s := range small {
					c := &code{}
					if op == 0x3e {
						// produce 32 bytes of return data first: call CB
						c.pushN(0).pushN(0).pushN(0).pushN(0).pushN(0).pushAddr(CB).op(0x5a, 0xf1, 0x50)
					}
					c.push(cw(s)).push(cw(b)).push(cw(a)).op(op).op(0x59).pushN(0).op(0xf3)
					mk("matrix", c.b)
				}
			}
		}
	}
	// MSTORE / MSTORE8 / KECCAK / LOG / RETURN / REVERT with offset and size classes
	for _, a := range []int{0, 1, 3, 4, 5, 7, 8, 9, 11, 13} {
		for _, s := range []int{0, 1, 3, 4, 5, 7, 8, 9, 13} {
			for _, op := range []byte{0x20, 0xa0, 0xa2, 0xf3, 0xfd} {
				c := &code{}
				if op == 0xa2 {
					c.pushN(7).pushN(9)
				}
				c.push(cw(s)).push(cw(a)).op(op)
				if op == 0x20 {
					c.pushN(0).op(0x52).pushN(32).pushN(0).op(0xf3)
				} else {
					c.op(0x00)
				}
				mk("matrix", c.b)
			}
		}
		for _, op := range []byte{0x52, 0x53} {
			c := &code{}
			c.pushN(0xabcdef).push(cw(a)).op(op).op(0x59).pushN(0).op(0x52).pushN(32).pushN(0).op(0xf3)
			mk("matrix", c.b)
		}
	}
	// EXP over exponent byte lengths
	for i := 0; i < n; i++ {
		for _, e := range []string{"0", "1", "ff", "100", "ffff", "10000", "ffffffffffffffff", "ffffffffffffffffffffffffffffffffffffffffffffffffffffffffffffffff"} {
			eb, _ := new(big.Int).SetString(e, 16)
			c := &code{}
			c.push(eb.Bytes()).push(cw(i)).op(0x0a).pushN(0).op(0x52).pushN(32).pushN(0).op(0xf3)
			mk("matrix", c.b)
		}
	}
	// SSTORE original/current/new value transitions with a preceding SSTORE, at several gas limits around the stipend
	for orig := 0; orig < 3; orig++ {
		for cur := 0; cur < 3; cur++ {
			for nw := 0; nw < 3; nw++ {
				for _, gas := range []uint64{500_000, 23_000, 2_400 + 21, 2_300} {
					c := &code{}
					c.pushN(uint64(cur)).pushN(1).op(0x55).pushN(uint64(nw)).pushN(1).op(0x55).op(0x00)
					mk("matrix-sstore", c.b)
					p := out[len(out)-1]
					p.AllForks = gas == 500_000 // the refund and net-metering rules differ fork by fork
					p.Gas = gas + 40000
					if gas < 100000 {
						p.Gas = gas
					}
					if orig != 0 {
						p.Storage[CA] = map[common.Hash]common.Hash{common.BigToHash(big.NewInt(1)): common.BigToHash(big.NewInt(int64(orig)))}
					}
				}
			}
		}
	}
	// calls: kind x value x gas x target
	for _, kind := range []byte{0xf1, 0xf2, 0xf4, 0xfa} {
		for _, val := range []uint64{0, 1, 1 << 40} {
			for _, gasArg := range []int64{-1, 0, 2300, 100000, -2, -3, -4} { // -2, -3, -4: 2^64-1, 2^64, 2^256-1 (an upper bound only, from EIP-150 on)
				for _, tgt := range []common.Address{CB, NX, EO, CA, common.BytesToAddress([]byte{2}), common.BytesToAddress([]byte{4}), common.BytesToAddress([]byte{9})} {
					if (kind == 0xf4 || kind == 0xfa) && val != 0 {
						continue
					}
					c := &code{}
					c.pushN(32).pushN(0).pushN(4).pushN(0)
					if kind == 0xf1 || kind == 0xf2 {
						c.pushN(val)
					}
					c.pushAddr(tgt)
					switch {
					case gasArg == -1:
						c.op(0x5a)
					case gasArg == -2:
						c.push(cw(10))
					case gasArg == -3:
						c.push(cw(11))
					case gasArg == -4:
						c.push(cw(13))
					default:
						c.pushN(uint64(gasArg))
					}
					c.op(kind).pushN(32).op(0x52).op(0x3d).pushN(64).op(0x52).pushN(96).pushN(0).op(0xf3)
					mk("matrix-call", c.b)
					out[len(out)-1].Gas = 300_000
					if gasArg < -1 && val == 0 && (tgt == CB || tgt == NX) {
						out[len(out)-1].AllForks = true // the forwarding rule changes with EIP-150
					}
				}
			}
		}
	}
	// stack bounds of every opcode on every fork's table: one item too few must underflow; 1024 items before an opcode that leaves
	// more than it takes must overflow, 1023 must not (only the result is compared: 1024 pushes each)
	for b := 0; b < 256; b++ {
		oi, ok := StdOps[byte(b)]
		if !ok || b == 0x5c || b == 0x5d || b == 0x5e {
			continue
		}
		imm := 0
		if b >= 0x60 && b <= 0x7f {
			imm = b - 0x5f
		}
		emit := func(name string, height int) {
			c := &code{}
			for i := 0; i < height; i++ {
				c.pushN(1)
			}
			c.op(byte(b))
			c.b = append(c.b, make([]byte, imm)...)
			if oi.Pushes > 0 {
				c.op(0x50)
			}
			c.op(0x00)
			mk(name, c.b)
			p := out[len(out)-1]
			p.Gas, p.AllForks, p.ResultOnly = 400_000, true, true
		}
		if oi.Pops > 0 {
			emit("matrix-stack-under", oi.Pops-1)
		}
		if oi.Pushes > oi.Pops {
			emit("matrix-stack-full", 1024)
			emit("matrix-stack-full-1", 1023)
		}
	}
	// the standard precompiles on small crafted inputs (the boundary cases of their own arithmetic and validation): the input is built
	// in memory, the precompile is reached by STATICCALL with all gas, the success flag, the return-data size and the first 64 bytes of
	// the return data are returned
	{
		pcProg := func(name string, addr byte, input []byte, forks []string) {
			c := &code{}
			for i := 0; i < len(input); i += 32 {
				chunk := make([]byte, 32)
				copy(chunk, input[i:])
				c.b = append(c.b, 0x7f)
				c.b = append(c.b, chunk...)
				c.pushN(0x100 + uint64(i)).op(0x52)
			}
			c.pushN(0x40).pushN(0x40).pushN(uint64(len(input))).pushN(0x100).pushAddr(common.BytesToAddress([]byte{addr})).op(0x5a, 0xfa)
			c.pushN(0).op(0x52).op(0x3d).pushN(0x20).op(0x52).pushN(0x80).pushN(0).op(0xf3)
			mk(name, c.b)
			p := out[len(out)-1]
			p.Gas, p.Forks = 2_000_000, forks
		}
		word := func(v uint64) []byte { return common.LeftPadBytes(new(big.Int).SetUint64(v).Bytes(), 32) }
		cat := func(bs ...[]byte) []byte {
			var o []byte
			for _, b := range bs {
				o = append(o, b...)
			}
			return o
		}
		// MODEXP: base, exponent, modulus over {0, 1, 2, 3}, one byte each and 32 bytes each
		for _, l := range []uint64{1, 32} {
			for b := uint64(0); b < 4; b++ {
				for e := uint64(0); e < 4; e++ {
					for m := uint64(0); m < 4; m++ {
						val := func(v uint64) []byte { return common.LeftPadBytes([]byte{byte(v)}, int(l)) }
						pcProg("matrix-precompile", 5, cat(word(l), word(l), word(l), val(b), val(e), val(m)), []string{"Byzantium", "Berlin"})
					}
				}
			}
		}
		pcProg("matrix-precompile", 5, cat(word(0), word(0), word(0)), []string{"Byzantium", "Berlin"})
		pcProg("matrix-precompile", 5, cat(word(1), word(0), word(1), []byte{1, 1}), []string{"Byzantium", "Berlin"})
		// ECRECOVER: v in {0, 1, 26, 27, 28, 29, 2^8+27}, zero / non-zero r and s
		for _, v := range []uint64{0, 1, 26, 27, 28, 29, 283} {
			for _, rs := range [][2]uint64{{0, 0}, {1, 1}, {7, 0}, {0, 7}} {
				pcProg("matrix-precompile", 1, cat(word(0xabcdef), word(v), word(rs[0]), word(rs[1])), []string{"Frontier", "London"})
			}
		}
		// SHA256, RIPEMD160, IDENTITY on lengths around a block
		for _, a := range []byte{2, 3, 4} {
			for _, n := range []int{0, 1, 31, 32, 33, 55, 56, 64, 65} {
				in := make([]byte, n)
				for i := range in {
					in[i] = byte(i + 1)
				}
				pcProg("matrix-precompile", a, in, []string{"Frontier", "Berlin"})
			}
		}
		// BN256 add / mul / pairing: the point at infinity, the generator, a point not on the curve, short input; pairing with 0 and 1 (invalid) pairs
		g1 := cat(word(1), word(2))
		for _, in := range [][]byte{{}, cat(word(0), word(0), word(0), word(0)), cat(g1, word(0), word(0)), cat(g1, g1), cat(word(1), word(1), word(0), word(0)), g1[:40]} {
			pcProg("matrix-precompile", 6, in, []string{"Byzantium", "Istanbul"})
		}
		for _, in := range [][]byte{{}, cat(g1, word(0)), cat(g1, word(1)), cat(g1, word(2)), cat(word(1), word(1), word(2)), cat(word(0), word(0), word(5))} {
			pcProg("matrix-precompile", 7, in, []string{"Byzantium", "Istanbul"})
		}
		for _, in := range [][]byte{{}, make([]byte, 192), make([]byte, 191), make([]byte, 193), cat(g1, make([]byte, 128))} {
			pcProg("matrix-precompile", 8, in, []string{"Byzantium", "Istanbul"})
		}
		// BLAKE2F: rounds 0, 1, 12; final flag 0, 1, 2 (invalid); lengths 212, 213, 214
		for _, rounds := range []byte{0, 1, 12} {
			for _, fin := range []byte{0, 1, 2} {
				in := make([]byte, 213)
				in[3] = rounds
				in[4] = 0x48
				in[212] = fin
				pcProg("matrix-precompile", 9, in, []string{"Istanbul", "London"})
			}
		}
		pcProg("matrix-precompile", 9, make([]byte, 212), []string{"Istanbul", "London"})
		pcProg("matrix-precompile", 9, make([]byte, 214), []string{"Istanbul", "London"})
	}
	// CREATE / CREATE2 from memory of every size class around the init-code limit (EIP-3860: 49152 bytes, from Shanghai on only),
	// on every fork; the address word, the gas left after it and the return-data size are observable
	for _, op := range []byte{0xf0, 0xf5} {
		for _, sz := range []uint64{0, 1, 32, 33, 24576, 24577, 49152, 49153, 65536} {
			c := &code{}
			if op == 0xf5 {
				c.pushN(3)
			}
			c.pushN(sz).pushN(0).pushN(0).op(op).pushN(0).op(0x52).op(0x5a).pushN(32).op(0x52).op(0x3d).pushN(64).op(0x52).pushN(96).pushN(0).op(0xf3)
			mk("matrix-create", c.b)
			out[len(out)-1].Gas = 5_000_000
			out[len(out)-1].AllForks = true
		}
	}
	out = append(out, pairPrograms()...)
	out = append(out, nestPrograms()...)
	return out
}

// helper contract: returns 32 bytes (0x01 padded) and logs
var helperB = []byte{0x60, 0x01, 0x60, 0x00, 0x52, 0x60, 0x20, 0x60, 0x00, 0xa0, 0x60, 0x20, 0x60, 0x00, 0xf3}

func base(name string, body []byte) *Program {
	return &Program{Name: name, Contracts: map[common.Address][]byte{CA: body, CB: helperB, CC: {0x60, 0x00, 0x60, 0x00, 0xfd}},
		Balances: map[common.Address]*big.Int{EO: big.NewInt(1 << 50), CA: big.NewInt(1)}, Storage: map[common.Address]map[common.Hash]common.Hash{},
		Entry: "call", To: CA, Input: []byte{9, 8, 7, 6}, Value: big.NewInt(0), Gas: 400_000}
}

// MemGrow: one memory-expanding instruction per program with a window of 64 KiB, 1 MiB or 4 MiB, for every instruction that can
// expand memory (loads, stores, hashing, copies, logs, halts with data, creations, calls of every kind with and without value to
// accounts with code, without code, never seen, and precompiles), at a gas limit far below and one above the expansion price.
func MemGrow() []*Program {
	var out []*Program
	fresh := common.HexToAddress("0x00000000000000000000000000000000000f0006")
	sizes := []uint64{1 << 16, 1 << 20, 1 << 22}
	add := func(name string, body []byte) {
		for _, gas := range []uint64{300_000, 40_000_000} {
			p := base(name, body)
			p.Gas = gas
			p.Balances[CA] = big.NewInt(1000)
			out = append(out, p)
		}
	}
	for _, sz := range sizes {
		one := map[string]func(c *code){
			"mload":        func(c *code) { c.pushN(sz).op(0x51, 0x50) },
			"mstore":       func(c *code) { c.pushN(1).pushN(sz).op(0x52) },
			"mstore8":      func(c *code) { c.pushN(1).pushN(sz).op(0x53) },
			"keccak":       func(c *code) { c.pushN(sz).pushN(0).op(0x20, 0x50) },
			"calldatacopy": func(c *code) { c.pushN(sz).pushN(0).pushN(0).op(0x37) },
			"codecopy":     func(c *code) { c.pushN(sz).pushN(0).pushN(0).op(0x39) },
			"extcodecopy":  func(c *code) { c.pushN(sz).pushN(0).pushN(0).pushAddr(CB).op(0x3c) },
			"mcopy":        func(c *code) { c.pushN(sz).pushN(0).pushN(32).op(0x5e) },
			"log0":         func(c *code) { c.pushN(sz).pushN(0).op(0xa0) },
			"log2":         func(c *code) { c.pushN(1).pushN(2).pushN(sz).pushN(0).op(0xa2) },
			"return":       func(c *code) { c.pushN(sz).pushN(0).op(0xf3) },
			"revert":       func(c *code) { c.pushN(sz).pushN(0).op(0xfd) },
			"create":       func(c *code) { c.pushN(sz).pushN(0).pushN(0).op(0xf0, 0x50) },
			"create-v1":    func(c *code) { c.pushN(sz).pushN(0).pushN(1).op(0xf0, 0x50) },
			"create2":      func(c *code) { c.pushN(9).pushN(sz).pushN(0).pushN(0).op(0xf5, 0x50) },
		}
		names := make([]string, 0, len(one))
		for k := range one {
			names = append(names, k)
		}
		sortStrings(names)
		for _, k := range names {
			c := &code{}
			one[k](c)
			c.op(0x00)
			p0 := len(out)
			add(fmt.Sprintf("memgrow:%s-%d", k, sz), c.b)
			if k == "mcopy" { // keep the Cancun byte: Sanitize removed it
				for _, p := range out[p0:] {
					p.Contracts[CA] = c.b
				}
			}
		}
		for _, kind := range []byte{0xf1, 0xf2, 0xf4, 0xfa} {
			for _, val := range []uint64{0, 1} {
				if val == 1 && kind != 0xf1 && kind != 0xf2 {
					continue
				}
				for ti, tgt := range []common.Address{CB, NX, fresh, common.BytesToAddress([]byte{4}), common.BytesToAddress([]byte{0x66}), common.BytesToAddress([]byte{0x64})} {
					for _, win := range []string{"in", "out"} {
						c := &code{}
						if win == "in" {
							c.pushN(0).pushN(0).pushN(sz).pushN(0)
						} else {
							c.pushN(sz).pushN(0).pushN(0).pushN(0)
						}
						if kind == 0xf1 || kind == 0xf2 {
							c.pushN(val)
						}
						c.pushAddr(tgt).op(0x5a, kind, 0x50, 0x00)
						add(fmt.Sprintf("memgrow:call%x-v%d-t%d-%s-%d", kind, val, ti, win, sz), c.b)
					}
				}
			}
		}
	}
	return out
}

// pairPrograms: every "state-setting" action followed by every "observing" action, so that state that one instruction
// leaves behind for another (return-data buffer, touched/created accounts, warm sets, memory size, refunds) is enumerated
// systematically instead of waiting for the random generator to line the two up.
func pairPrograms() []*Program {
	type act func(c *code)
	call := func(kind byte, tgt common.Address, val uint64, gas int64) act {
		return func(c *code) {
			c.pushN(32).pushN(0x40).pushN(4).pushN(0)
			if kind == 0xf1 || kind == 0xf2 {
				c.pushN(val)
			}
			c.pushAddr(tgt)
			if gas < 0 {
				c.op(0x5a)
			} else {
				c.pushN(uint64(gas))
			}
			c.op(kind).pushN(0x7e0).op(0x51, 0x18).pushN(0x7e0).op(0x52)
		}
	}
	create := func(op byte, ic []byte, val uint64) act {
		return func(c *code) {
			for i := 0; i < len(ic); i += 32 {
				chunk := make([]byte, 32)
				copy(chunk, ic[i:])
				c.b = append(c.b, 0x7f)
				c.b = append(c.b, chunk...)
				c.pushN(0x400 + uint64(i)).op(0x52)
			}
			if op == 0xf5 {
				c.pushN(5)
			}
			c.pushN(uint64(len(ic))).pushN(0x400).pushN(val).op(op).pushN(0x7e0).op(0x51, 0x18).pushN(0x7e0).op(0x52)
		}
	}
	icOK := []byte{0x60, 0x00, 0x60, 0x00, 0x53, 0x60, 0x01, 0x60, 0x00, 0xf3}
	icRevert := []byte{0x60, 0xaa, 0x60, 0x00, 0x52, 0x60, 0x20, 0x60, 0x00, 0xfd}
	icInvalid := []byte{0xfe}
	// init code that itself calls the helper (its return data must not leak into the creator)
	icCalls := (&code{}).pushN(32).pushN(0).pushN(0).pushN(0).pushN(0).pushAddr(CB).op(0x5a, 0xf1, 0x50, 0x00).b
	// init codes with jumps: A jumps to a JUMPDEST at 4; B to one at 10 (beyond the length of A); C to position 4, which in C is push data
	icJumpA := []byte{0x60, 0x04, 0x56, 0xfe, 0x5b, 0x00}
	icJumpB := []byte{0x60, 0x0a, 0x56, 0xfe, 0xfe, 0xfe, 0xfe, 0xfe, 0xfe, 0xfe, 0x5b, 0x60, 0x01, 0x60, 0x00, 0x53, 0x60, 0x01, 0x60, 0x00, 0xf3}
	icJumpC := []byte{0x60, 0x04, 0x56, 0x60, 0x5b, 0x00}
	create2Addr := func(ic []byte) common.Address {
		return crypto.CreateAddress2(CA, common.BigToHash(big.NewInt(5)), crypto.Keccak256(ic))
	}
	pre := common.BytesToAddress([]byte{4})
	pre2 := common.BytesToAddress([]byte{2})
	fresh := common.HexToAddress("0x00000000000000000000000000000000000f0005")
	setters := map[string]act{
		"call-B":         call(0xf1, CB, 0, -1),
		"call-B-v1":      call(0xf1, CB, 1, -1),
		"call-B-v9":      call(0xf1, CB, 9, -1), // insufficient balance
		"call-revert":    call(0xf1, CC, 0, -1),
		"call-nx":        call(0xf1, NX, 0, -1),
		"call-nx-v1":     call(0xf1, NX, 1, -1),
		"call-fresh":     call(0xf1, fresh, 0, -1),
		"call-pre4":      call(0xf1, pre, 0, -1),
		"call-pre2-g0":   call(0xf1, pre2, 0, 0),
		"callcode-B":     call(0xf2, CB, 0, -1),
		"delegate-B":     call(0xf4, CB, 0, -1),
		"static-B":       call(0xfa, CB, 0, -1),
		"static-nx":      call(0xfa, NX, 0, -1),
		"static-fresh":   call(0xfa, fresh, 0, -1),
		"static-pre4":    call(0xfa, pre, 0, -1),
		"create-ok":      create(0xf0, icOK, 0),
		"create-v9":      create(0xf0, icOK, 9), // insufficient balance: the frame is never entered
		"create-revert":  create(0xf0, icRevert, 0),
		"create-invalid": create(0xf0, icInvalid, 0),
		"create-calls":   create(0xf0, icCalls, 0),
		"create2-ok":     create(0xf5, icOK, 0),
		"create2-calls":  create(0xf5, icCalls, 0),
		"create2-revert": create(0xf5, icRevert, 0),
		// two different init codes with jumps in one transaction: each is analysed on its own (jump destinations are per code)
		"create-jumpA": create(0xf0, icJumpA, 0),
		// the same calls, in memory that is already as large as it will get (so no later expansion moves it), followed by a store over
		// the argument area and the output window: the return-data buffer must not alias memory
		"call-pre4+clobber": func(c *code) {
			c.pushN(0).pushN(0x840).op(0x52).push(cw(12)).pushN(0).op(0x52)
			call(0xf1, pre, 0, -1)(c)
			c.push(cw(13)).pushN(0).op(0x52)
			c.push(cw(12)).pushN(0x40).op(0x52)
		},
		"call-B+clobber": func(c *code) {
			c.pushN(0).pushN(0x840).op(0x52).push(cw(12)).pushN(0).op(0x52)
			call(0xf1, CB, 0, -1)(c)
			c.push(cw(13)).pushN(0).op(0x52)
			c.push(cw(12)).pushN(0x40).op(0x52)
		},
		"static-pre4+clobber": func(c *code) {
			c.pushN(0).pushN(0x840).op(0x52).push(cw(12)).pushN(0).op(0x52)
			call(0xfa, pre, 0, -1)(c)
			c.push(cw(13)).pushN(0).op(0x52)
		},
		// input 0..64, output window 32..96: the window overlaps the argument area
		"call-pre4-overlap": func(c *code) {
			c.pushN(0).pushN(0x840).op(0x52).push(cw(12)).pushN(0).op(0x52).push(cw(9)).pushN(0x20).op(0x52)
			c.pushN(64).pushN(32).pushN(64).pushN(0).pushN(0).pushAddr(pre).op(0x5a, 0xf1, 0x50)
		},
		"delegate-pre4-overlap": func(c *code) {
			c.pushN(0).pushN(0x840).op(0x52).push(cw(12)).pushN(0).op(0x52).push(cw(9)).pushN(0x20).op(0x52)
			c.pushN(64).pushN(32).pushN(64).pushN(0).pushAddr(pre).op(0x5a, 0xf4, 0x50)
		},
		"sstore-1":   func(c *code) { c.pushN(1).pushN(1).op(0x55) },
		"sstore-0":   func(c *code) { c.pushN(0).pushN(1).op(0x55) },
		"mstore-far": func(c *code) { c.pushN(7).pushN(0x900).op(0x52) },
	}
	obsv := map[string]act{
		"rdsize":            func(c *code) { c.op(0x3d).pushN(0x800).op(0x52) },
		"rdcopy32":          func(c *code) { c.pushN(32).pushN(0).pushN(0x820).op(0x3e) },
		"rdcopy1":           func(c *code) { c.pushN(1).pushN(0).pushN(0x820).op(0x3e) },
		"rdcopy4":           func(c *code) { c.pushN(4).pushN(0).pushN(0x820).op(0x3e) },
		"msize":             func(c *code) { c.op(0x59).pushN(0x800).op(0x52) },
		"call-v1-nx":        call(0xf1, NX, 1, -1),
		"call-v1-fresh":     call(0xf1, fresh, 1, -1),
		"call-v1-pre4":      call(0xf1, pre, 1, -1),
		"call-v1-pre2":      call(0xf1, pre2, 1, -1),
		"callcode-v1-fresh": call(0xf2, fresh, 1, -1),
		"call-v0-fresh":     call(0xf1, fresh, 0, -1),
		"balance-fresh":     func(c *code) { c.pushAddr(fresh).op(0x31).pushN(0x800).op(0x52) },
		"exthash-fresh":     func(c *code) { c.pushAddr(fresh).op(0x3f).pushN(0x800).op(0x52) },
		"extsize-pre4":      func(c *code) { c.pushAddr(pre).op(0x3b).pushN(0x800).op(0x52) },
		// the address a CREATE by this contract gets (its nonce is 1), and the CREATE2 addresses of the init codes used above:
		// from Berlin on an address under creation is warm from then on, even when the creation fails
		"balance-created1":   func(c *code) { c.pushAddr(crypto.CreateAddress(CA, 1)).op(0x31).pushN(0x800).op(0x52) },
		"extsize-created1":   func(c *code) { c.pushAddr(crypto.CreateAddress(CA, 1)).op(0x3b).pushN(0x800).op(0x52) },
		"call-v0-created1":   call(0xf1, crypto.CreateAddress(CA, 1), 0, -1),
		"exthash-c2revert":   func(c *code) { c.pushAddr(create2Addr(icRevert)).op(0x3f).pushN(0x800).op(0x52) },
		"balance-c2ok":       func(c *code) { c.pushAddr(create2Addr(icOK)).op(0x31).pushN(0x800).op(0x52) },
		"create-jumpB-after": create(0xf0, icJumpB, 0),
		"create-jumpC-after": create(0xf0, icJumpC, 0),
		"sload-1":            func(c *code) { c.pushN(1).op(0x54).pushN(0x800).op(0x52) },
		"sstore-2":           func(c *code) { c.pushN(2).pushN(1).op(0x55) },
		"sstore-0":           func(c *code) { c.pushN(0).pushN(1).op(0x55) },
		"selfdestruct-fresh": func(c *code) { c.pushAddr(fresh).op(0xff) },
		"create-after":       create(0xf0, icOK, 0),
	}
	sk := make([]string, 0, len(setters))
	for k := range setters {
		sk = append(sk, k)
	}
	ok := make([]string, 0, len(obsv))
	for k := range obsv {
		ok = append(ok, k)
	}
	sortStrings(sk)
	sortStrings(ok)
	var out []*Program
	for _, s1 := range sk {
		for _, o := range ok {
			c := &code{}
			setters[s1](c)
			obsv[o](c)
			c.pushN(0x860).pushN(0).op(0xf3)
			p := base("pair:"+s1+"+"+o, c.b)
			p.Storage[CA] = map[common.Hash]common.Hash{common.BigToHash(big.NewInt(1)): common.BigToHash(big.NewInt(1))}
			if strings.Contains(o, "created1") || strings.Contains(o, "-c2") {
				p.AllForks = strings.HasPrefix(s1, "create") // warm/cold rules differ by fork
			}
			out = append(out, p)
		}
	}
	return out
}

func sortStrings(l []string) {
	for i := 1; i < len(l); i++ {
		for j := i; j > 0 && l[j] < l[j-1]; j-- {
			l[j], l[j-1] = l[j-1], l[j]
		}
	}
}

// nestPrograms: call chains A -> B -> C where every frame logs and then ends in every way, over the call kinds:
// what a failing ancestor does to the effects and logs of succeeding descendants (and tracers that post-process them).
func nestPrograms() []*Program {
	ends := map[string][]byte{"stop": {0x00}, "revert": {0x60, 0x00, 0x60, 0x00, 0xfd}, "invalid": {0xfe}, "return": {0x60, 0x20, 0x60, 0x00, 0xf3}}
	en := []string{"stop", "revert", "invalid", "return"}
	kinds := []byte{0xf1, 0xf4, 0xfa, 0xf2}
	var out []*Program
	frame := func(logTopic uint64, next *common.Address, kind byte, end string) []byte {
		c := &code{}
		c.pushN(logTopic).pushN(0).op(0x52).pushN(logTopic).pushN(32).pushN(0).op(0xa1) // LOG1
		c.pushN(logTopic).pushN(logTopic).op(0x55)
		if next != nil {
			c.pushN(32).pushN(0x40).pushN(0).pushN(0)
			if kind == 0xf1 || kind == 0xf2 {
				c.pushN(0)
			}
			c.pushAddr(*next).op(0x5a, kind, 0x50)
			c.pushN(logTopic + 100).pushN(32).pushN(0).op(0xa1) // a log after the call, too
		}
		c.op(ends[end]...)
		return c.b
	}
	// a chain several frames deep whose last frame makes two sibling calls (trace addresses of length 4+, fan-out below depth 3):
	// CA calls itself with calldata[0]+1 until calldata[0] = depth, then calls CB twice
	for _, depth := range []uint64{1, 2, 3, 4, 5} {
		for _, kind := range []byte{0xf1, 0xfa} {
			c := &code{}
			c.pushN(0).op(0x35).pushN(248).op(0x1c) // d = calldata[0]
			c.op(0x80).pushN(depth).op(0x11)        // depth > d ?
			c.op(0x61, 0, 0)
			fix := len(c.b) - 2
			c.op(0x57)
			for i := 0; i < 2; i++ { // bottom: two sibling calls to CB
				c.pushN(32).pushN(0x40).pushN(0).pushN(0)
				if kind == 0xf1 {
					c.pushN(0)
				}
				c.pushAddr(CB).op(0x5a, kind, 0x50)
			}
			c.op(0x00)
			d := len(c.b)
			c.b[fix], c.b[fix+1] = byte(d>>8), byte(d)
			c.op(0x5b).pushN(1).op(0x01).pushN(0).op(0x53) // mem[0] = d+1
			c.pushN(32).pushN(0x40).pushN(1).pushN(0).pushN(0).pushAddr(CA).op(0x5a, 0xf1, 0x50, 0x00)
			p := base(fmt.Sprintf("nest:deep%d-%x", depth, kind), c.b)
			p.Input = []byte{0}
			out = append(out, p)
		}
	}
	// SELFDESTRUCT refund cases: the same contract destructs twice; a contract destructs towards one that already has
	{
		sd := func(to common.Address) []byte { c := &code{}; c.pushAddr(to); c.op(0xff); return c.b }
		callTo := func(c *code, a common.Address) {
			c.pushN(0).pushN(0).pushN(0).pushN(0).pushN(0).pushAddr(a).op(0x5a, 0xf1, 0x50)
		}
		c := &code{}
		callTo(c, CB)
		callTo(c, CB)
		c.op(0x00)
		p := base("nest:selfdestruct-twice", c.b)
		p.Contracts[CB] = sd(NX)
		p.AllForks = true
		out = append(out, p)
		c = &code{}
		callTo(c, CC)
		callTo(c, CB)
		c.op(0x00)
		p = base("nest:selfdestruct-to-destructed", c.b)
		p.Contracts[CC] = sd(NX)
		p.Contracts[CB] = sd(CC)
		p.AllForks = true
		out = append(out, p)
	}
	// a store in a re-entrant frame that fails, then a load of the same slot by the outer frame (tracers that cache storage must follow the rollback)
	for _, end := range []string{"revert", "invalid"} {
		c := &code{}
		c.pushN(0).op(0x35).pushN(248).op(0x1c) // first calldata byte
		c.op(0x61, 0, 0)
		fix := len(c.b) - 2
		c.op(0x57)
		// outer: mem[0] = 1, call self with that byte, load slot 1, store it to memory, return
		c.pushN(1).pushN(0).op(0x53)
		c.pushN(0).pushN(0).pushN(1).pushN(0).pushN(0).op(0x30, 0x5a, 0xf1, 0x50)
		c.pushN(1).op(0x54).pushN(0x20).op(0x52).pushN(0x40).pushN(0).op(0xf3)
		d := len(c.b)
		c.b[fix], c.b[fix+1] = byte(d>>8), byte(d)
		c.op(0x5b).pushN(7).pushN(1).op(0x55).pushN(1).op(0x54, 0x50)
		c.op(ends[end]...)
		p := base("nest:reenter-"+end+"-sload", c.b)
		p.Input = []byte{0}
		p.Storage[CA] = map[common.Hash]common.Hash{common.BigToHash(big.NewInt(1)): common.BigToHash(big.NewInt(3))}
		out = append(out, p)
	}
	// a static frame stays static after a nested static call has returned: CA -static-> CB; CB -static-> CC (returns), then CB writes
	for _, w := range []string{"sstore", "log", "callvalue", "create", "selfdestruct", "call-writer"} {
		outer := &code{}
		outer.pushN(32).pushN(0x40).pushN(0).pushN(0).pushAddr(CB).op(0x5a, 0xfa)
		outer.pushN(0).op(0x52).pushN(0x60).pushN(0).op(0xf3)
		mid := &code{}
		mid.pushN(0).pushN(0).pushN(0).pushN(0).pushAddr(CC).op(0x5a, 0xfa, 0x50)
		switch w {
		case "sstore":
			mid.pushN(1).pushN(0).op(0x55)
		case "log":
			mid.pushN(0).pushN(0).op(0xa0)
		case "callvalue":
			mid.pushN(0).pushN(0).pushN(0).pushN(0).pushN(1).pushAddr(NX).op(0x5a, 0xf1, 0x50)
		case "create":
			mid.pushN(0).pushN(0).pushN(0).op(0xf0, 0x50)
		case "selfdestruct":
			mid.pushAddr(NX).op(0xff)
		case "call-writer": // a plain CALL below the static frame inherits the protection
			mid.pushN(0).pushN(0).pushN(0).pushN(0).pushN(0).pushAddr(common.HexToAddress("0x00000000000000000000000000000000000f0007")).op(0x5a, 0xf1)
			mid.pushN(0x20).op(0x52)
		}
		mid.pushN(7).pushN(0).op(0x52).pushN(0x40).pushN(0).op(0xf3)
		p := base("nest:static-after-static-"+w, outer.b)
		p.Contracts[CB] = mid.b
		p.Contracts[CC] = []byte{0x00}
		p.Contracts[common.HexToAddress("0x00000000000000000000000000000000000f0007")] = []byte{0x60, 0x01, 0x60, 0x00, 0x55, 0x00}
		p.Balances[CB] = big.NewInt(5)
		p.Forks = []string{"Byzantium", "Berlin", "Shanghai"}
		out = append(out, p)
	}
	// SELFDESTRUCT naming the contract itself: the ether is gone at that instruction, BALANCE afterwards sees 0
	{
		c := &code{}
		c.pushN(0).pushN(0).pushN(0).pushN(0).pushN(0).pushAddr(CB).op(0x5a, 0xf1, 0x50)
		c.pushAddr(CB).op(0x31).pushN(0).op(0x52)
		c.pushN(0).pushN(0).pushN(1).pushN(0).pushN(0).pushAddr(CB).op(0x5a, 0xf1, 0x50) // a second call into the destructed code (one byte of calldata)
		c.pushAddr(NX).op(0x31).pushN(0x20).op(0x52).pushN(0x40).pushN(0).op(0xf3)
		p := base("nest:selfdestruct-to-self", c.b)
		// CB: calldata empty -> SELFDESTRUCT(ADDRESS); otherwise send the whole balance to NX
		cb := &code{}
		cb.op(0x36).op(0x61, 0, 0)
		fix := len(cb.b) - 2
		cb.op(0x57, 0x30, 0xff)
		d := len(cb.b)
		cb.b[fix], cb.b[fix+1] = byte(d>>8), byte(d)
		cb.op(0x5b).pushN(0).pushN(0).pushN(0).pushN(0).op(0x30, 0x31).pushAddr(NX).op(0x5a, 0xf1, 0x00)
		p.Contracts[CB] = cb.b
		p.Balances[CB] = big.NewInt(1000)
		p.AllForks = true
		out = append(out, p)
	}
	// the output window of a call is wider than what the callee hands back: the tail keeps what memory held before
	for _, kind := range kinds {
		for ti, tgt := range []common.Address{CB, NX, common.BytesToAddress([]byte{4})} {
			c := &code{}
			c.push(cw(13)).pushN(0x40).op(0x52).push(cw(13)).pushN(0x60).op(0x52).push(cw(13)).pushN(0x80).op(0x52)
			c.pushN(0x60).pushN(0x40).pushN(0).pushN(0)
			if kind == 0xf1 || kind == 0xf2 {
				c.pushN(0)
			}
			c.pushAddr(tgt).op(0x5a, kind).pushN(0).op(0x52).pushN(0xc0).pushN(0).op(0xf3)
			p := base(fmt.Sprintf("nest:outwindow-%x-t%d", kind, ti), c.b)
			out = append(out, p)
		}
	}
	// a failing call of every kind to a precompile address that exists as an empty account: the touch is rolled back with the frame,
	// so the empty account is still there when the transaction is finalised (EIP-158/161)
	for _, kind := range kinds {
		for _, pc := range []byte{2, 9} {
			c := &code{}
			c.pushN(32).pushN(0x40).pushN(32).pushN(0)
			if kind == 0xf1 || kind == 0xf2 {
				c.pushN(0)
			}
			c.pushAddr(common.BytesToAddress([]byte{pc})).pushN(10).op(kind).pushN(0).op(0x52).pushN(0x60).pushN(0).op(0xf3)
			p := base(fmt.Sprintf("nest:failed-%x-to-empty-precompile-%d", kind, pc), c.b)
			p.Balances[common.BytesToAddress([]byte{pc})] = big.NewInt(0)
			p.AllForks = true
			out = append(out, p)
		}
	}
	// top-level transfers in which sender and recipient coincide, with and without value (tracers that reconstruct the pre-state)
	for _, v := range []int64{0, 1000} {
		p := base(fmt.Sprintf("nest:toplevel-self-transfer-%d", v), []byte{0x00})
		p.To = EO
		p.Value = big.NewInt(v)
		out = append(out, p)
	}
	// self-recursion with all the gas: before EIP-150 the 1024-frame depth limit is reached (the 1025th attempt is refused up front),
	// afterwards the gas runs out around depth 900
	{
		c := &code{}
		c.pushN(0).pushN(0).pushN(0).pushN(0).pushN(0).op(0x30).pushN(512).op(0x5a, 0x03, 0xf1, 0x50, 0x00) // gas operand = GAS - 512: before EIP-150 asking for more than is left fails
		p := base("nest:depthlimit", c.b)
		p.Gas = 2_000_000_000
		p.Limit = 14000
		p.Forks = []string{"Frontier", "London"}
		out = append(out, p)
	}
	// the same recursion, and the frame whose call was refused for depth then issues a CREATE at that depth: it is refused up front
	// as well and it is a call attempt the call tree has to show (before EIP-150 only: afterwards the gas runs out before the limit)
	{
		c := &code{}
		c.pushN(0).pushN(0).pushN(0).pushN(0).pushN(0).op(0x30).pushN(512).op(0x5a, 0x03, 0xf1)
		t := &code{}
		t.pushN(0).pushN(0).pushN(0).op(0xf0, 0x50, 0x00)
		c.pushN(uint64(len(c.b) + 3 + len(t.b))).op(0x57)
		c.b = append(c.b, t.b...)
		c.op(0x5b, 0x00)
		for _, f := range []string{"Frontier"} {
			p := base("nest:depthlimit-create-"+f, c.b)
			p.Gas = 2_000_000_000
			p.Limit = 20000
			p.Forks = []string{f}
			out = append(out, p)
		}
	}
	for _, k1 := range kinds {
		for _, k2 := range kinds[:3] {
			for _, e1 := range en {
				for _, e2 := range en {
					for _, e3 := range []string{"stop", "revert"} {
						b, cc := CB, CC
						p := base(fmt.Sprintf("nest:%x-%x:%s/%s/%s", k1, k2, e1, e2, e3), frame(1, &b, k1, e1))
						p.Contracts[CB] = Sanitize(frame(2, &cc, k2, e2))
						p.Contracts[CC] = Sanitize(frame(3, nil, 0, e3))
						out = append(out, p)
					}
				}
			}
		}
	}
	return out
}
