"""property id -> check function(prop, tier) -> exit code, plus the metadata bin/mkmanifest writes into MANIFEST.json"""
import frame, keytree, calltracer, codec, precomp, cancun, steptrace, instances, jpgas, fuzz

FRAME_NOTE = ("Trusted: TLC 1.8; go-ethereum v1.12.0's StateDB as world state; the scenario compiler (harness/scn) that turns model "
              "instructions into byte code; join-point failures are injected at provider level (GetTxBondAspects error) except where real WASM "
              "Aspects are bound. Exhaustive only within the stated constants (<= 3-4 frames, <= 2-5 instructions, 2-3 accounts).")

META = {
    "C04": dict(fn=frame.check, engine="frame", design_ref="3.1, 6 C04",
                technique="TLC exhaustive model checking of ArtelaEVM.tla + replay of every TLC behaviour on the real EVM",
                text=("Every behaviour of the frame machine within the bound (all call trees over CALL/CALLCODE/DELEGATECALL/STATICCALL/CREATE, value 0/1, "
                      "storage writes, logs, self-destructs, each halt kind, a join-point failure of each kind injected at each firing position) is "
                      "model-checked for Atomicity/RefusedUntouched/FailureSeen and then executed on the real EVM; balances, storage, code, nonces, "
                      "self-destruct marks, logs and the success flags seen by every caller must equal the model's."),
                note=FRAME_NOTE),
    "C05": dict(fn=frame.check, engine="frame", design_ref="3.1, 6 C05",
                technique="TLC exhaustive model checking of ArtelaEVM.tla + replay of every TLC behaviour on the real EVM (provider log and real WASM Aspects)",
                text=("All call trees in the bound x calldata lengths {0,1(,33)} x values x join points toggled between two top-level calls x injected "
                      "failure position: the provider's firing log must equal the model's pre/post sequence (exactly once, LIFO, none for precompiles, "
                      "code-less accounts, non-CALL kinds, or when switched off); with real Aspects bound, the message each Aspect receives "
                      "(from, to, data, value, gas, call index, ret, error) must be that call's. On thousands of generated programs StepTrace.tla derives from the "
                      "debug-tracer callback stream where each pre/post firing must occur and compares with the provider's log (position, contract, point)."),
                note=FRAME_NOTE),
    "C07": dict(fn=frame.check, engine="frame", design_ref="3.1, 6 C07",
                technique="TLC exhaustive model checking of ArtelaEVM.tla + replay of every TLC behaviour on the real EVM",
                text=("TreeWF/RestClosed/OpenChain are model-checked (including the depth-limit path with a small MaxDepth); every behaviour in the replay "
                      "bound (failures of every kind and position, creates, collisions, repeated top-level calls on one EVM) is executed and the tree "
                      "obtained through FindCall/ParentOf/ChildrenOf/ChildrenIndices is checked against the structural statement and the model's tree. "
                      "On thousands of generated programs (13 forks) StepTrace.tla rebuilds the tree the debug-tracer callbacks imply, including attempts refused up "
                      "front, and compares shape and cursor with the dumped tree; a self-recursion program reaches the real 1024-frame depth limit before EIP-150."),
                note=FRAME_NOTE + " The real 1024 depth limit is exercised by the recursion program of the trace validation, not by the exhaustive bound."),
    "C08": dict(fn=frame.check, engine="frame", design_ref="3.1, 6 C08",
                technique="TLC exhaustive model checking of ArtelaEVM.tla + replay of every TLC behaviour on the real EVM",
                text=("TreeRecords and the action property InputsStable are model-checked; every behaviour in the bound (CALL/CREATE/CREATE2 that run, "
                      "are refused or fail later; return area placed on top of the argument area and later stores over it) is executed and each "
                      "node's from/to/value/calldata-or-init-code/ret/err, read at the end of the transaction, must equal what was supplied at call time. "
                      "On generated programs StepTrace.tla compares every dumped node with the arguments and outcome of the frame's own enter/exit callbacks; "
                      "every other scenario scales its wei unit by 2^64+1."),
                note=FRAME_NOTE),
    "C10": dict(fn=frame.check, engine="frame", design_ref="3.1, 6 C10",
                technique="TLC exhaustive model checking of ArtelaEVM.tla + replay of every TLC behaviour on the real EVM",
                text=("JournalAttr (ghost log of journal instructions filed under storage context and innermost CALL/CREATE frame vs the tracer-cursor "
                      "shaped model) and JournalMonotone are model-checked; every behaviour mixing REGKEY/JV/SSTORE with the four call kinds, CREATE, "
                      "re-entrancy, refused calls and reverting frames is executed and StateChanges().Slot/Variable per call index must equal the model's lists; "
                      "slot 0 is a value-type variable (VSVJNAL/VVJNAL), slot 1 a string variable (RSVJNAL/VRJNAL)."),
                note=FRAME_NOTE),
    "C13": dict(fn=frame.check, engine="frame", design_ref="3.1, 6 C13",
                technique="TLC exhaustive model checking of ArtelaEVM.tla + replay of every TLC behaviour on the real EVM",
                text=("BalanceBrackets (ghost log of true balances around each transfer) and BalJournalMonotone are model-checked; every behaviour "
                      "with values 0/1/2, self-calls, calls to new accounts and precompiles, CREATE/CREATE2, reverting frames and two top-level calls "
                      "is executed and StateChanges().Balance(addr) per call index must equal the model's collapsed before/after sequences, also with key registrations "
                      "and journal instructions between the transfers. On thousands of generated programs StepTrace.tla builds the journal from the transfers the wrapped "
                      "Transfer function observed (real balances, position in the callback stream) and requires the dumped journal to be exactly that map."),
                note=FRAME_NOTE),
    "C11": dict(fn=keytree.check, engine="keytree", design_ref="3.3, 6 C11", replay=".build/verifh keytree -one {path}",
                technique="TLC exhaustive model checking of KeyTree.tla + replay of every TLC-generated API history on a real vm.Tracer",
                text=("LookupAgree/ChangeVisibleBoth/ChildIndicesExact/RefuseIdempotent are model-checked on the implementation-shaped key tree with a ghost "
                      "registration record; every history of <= 3 (thorough: 4, sampled 10) API operations over 1-2 accounts, 2 slots, offsets {0,1,32,256,2^32}, "
                      "2 type ids, 2 names, 2 values is replayed on the real tracer and every query is compared after the last operation of every prefix."),
                note="Trusted: TLC. Conflicting registrations (a second layout for a name, a second name for a path) are part of the histories: the model says which are refused and that a refusal changes nothing. Exhaustive only within the stated constants (two configurations: two ordinary types, and one of them the zero type id); the thorough tier adds sampled histories of length 10. Node types (branch -> data on the first change) are modelled and replayed but judged as model drift only."),
    "C19": dict(fn=calltracer.check, engine="calltracer", design_ref="3.4, 6 C19", replay=".build/verifh calltracer -one {path}",
                technique="TLC exhaustive model checking of CallTracer.tla + replay of every TLC-generated callback stream on the real callTracer and flatCallTracer",
                text=("NoCrash/FiledUnderIssuer/OwnResult/FilterExact/FlatDesign are model-checked on the implementation-shaped bookkeeping (callstack, join-point "
                      "marker, JoinPoints list) against the ghost 'issued by' relation; every well-nested stream in the bound is fed to both real tracers in 7 "
                      "configurations and the emitted JSON must equal the expected tree / flat list, with unique prefix-closed trace addresses and exact sub-trace counts."),
                note="Trusted: TLC; the stream generator (frames with pre-JP Aspect runs, calls, post-JP Aspect runs; calls inside Aspect runs). Exhaustive only within the stated constants; three deviation switches (the three defects fixed in 0a96c32) must each yield a TLC counterexample."),
    "C09": dict(fn=codec.check, engine="codec", design_ref="3.5, 6 C09", replay=".build/verifh codec -one {path}",
                technique="TLC enumeration of JournalCodec.tla vectors (decoder model-checked against the Solidity layout) + execution of every vector on the real VVJNAL/VRJNAL",
                text=("The packed-field and bytes/string decoders are written in TLA+ (RoundTrip, BadEncodingsRefused, FieldWidth model-checked); TLC enumerates every "
                      "(offset, width) in 0..34 plus 2^31..2^256-1 on 4 word patterns and every string length 0..100 x content pattern x slot kind x invalid "
                      "encoding; each is run on the real opcode in a real frame and the bytes read back through StateChanges().Slot must equal the model's, "
                      "invalid operands must fail and record nothing; sequences (journal a, journal b, reassign a, journal a again) require every record to keep the content of its own moment."),
                note="Trusted: TLC; the harness lays out storage as the Solidity compiler does (header word, data area at keccak256(pad32(slot))). Complete within the stated domain; 256-bit operands only at class boundaries."),
    "C12": dict(fn=codec.check, engine="codec", design_ref="3.5, 6 C12", replay=".build/verifh codec -one {path}",
                technique="TLC enumeration of JournalCodec.tla vectors + paired execution (journal opcode vs operand pops) on the real interpreter",
                text=("For each of the 8 journal opcodes x fork x static/non-static the same program is run with the instruction and with its operands popped: "
                      "stack sentinels, memory size and content, storage reads, storage writes, logs and return data must coincide and the gas difference must "
                      "be one constant non-zero fee for all opcodes and forks (choose-once, not the number 800); memory-argument and operand vectors that are "
                      "malformed must halt the frame with all gas consumed, well-formed ones must leave memory size unchanged; every opcode at every stack height 0..8 "
                      "(below its arity: a stack underflow like any instruction); a well-formed operand on which the instruction halts the frame is a mismatch of its own."),
                note="Trusted: TLC; POP costs 2 gas (used to derive the fee). Every operand slot is read after the instruction, so access-list side effects show in the fee. Reads reaching beyond existing memory may fail or read zeros; the property fixes neither."),
    "C14": dict(fn=precomp.check, engine="precompile", design_ref="3.5, 6 C14", replay=".build/verifh precompile -one {path}",
                technique="TLC enumeration of Precompile.tla payload vectors + execution of every vector on the real precompiles with recording host callbacks",
                text=("The ABI decode of the three Artela precompiles is written in TLA+ over payload lengths, head and length words (with 2^63..2^256-1 classes); "
                      "every vector is sent to the real precompile and the address/key/hash/(key,value) that reach the host, the returned bytes, the error and "
                      "the fee must be exactly the model's; every call kind x depth x fork checks availability from Berlin on and that a context write is "
                      "attributed to the calling contract or refused, never crashes; sequences of two contracts reaching 0x66 in one process must not inherit a caller; "
                      "the frame machine adds call trees with 0x66 at depth (CtxWriteAttr)."),
                note="Trusted: TLC; the harness host callbacks. One fixed fee per precompile is required (choose-once), not the number 5000."),
    "C15": dict(fn=cancun.check, engine="cancun", design_ref="3.5, 6 C15", replay=".build/verifh mcopy -one {path}  (or .build/verifh scn -one {path} for transient-storage scenarios)",
                technique="TLC enumeration of MCopy.tla vectors (memmove invariant model-checked) + TLC exhaustive frame-machine scenarios with TSTORE/TLOAD, all replayed on the real EVM",
                text=("MCOPY is specified in TLA+ as overlap-safe memmove with expansion to cover source and destination and the EIP-5656 gas formula (MemMove model-checked); "
                      "every (memory size, dst, src, len) vector in the bound is executed and memory + gas compared. Transient storage is part of the frame machine's world: "
                      "TransientFresh/TransientLocal/Atomicity are model-checked and every behaviour mixing TSTORE, TLOAD, the four call kinds, reverts and two "
                      "transactions is replayed under Cancun (and pre-Cancun, where the opcode bytes must be invalid); a frame given exactly the price of a "
                      "TSTORE/TLOAD/MCOPY program (+0..3000 gas) must complete and use exactly that price."),
                note="Trusted: TLC; the recorder's per-step cost (EVMLogger.CaptureState) for the gas comparison. Exhaustive within offsets <= 24 (44), memory <= 96 bytes, <= 3 frames, <= 4-5 instructions."),
    "C01": dict(fn=steptrace.check, engine="steptrace", design_ref="3.2, 4.3, 6 C01", category="model_checking", replay="see the cmd field of {path}",
                technique="trace validation with TLC: StepTrace.tla checks that each recorded Artela execution refines the go-ethereum v1.12.0 execution of the same program",
                text=("Every generated program is executed on both implementations through each entry point; StepTrace.tla consumes the paired traces and requires the "
                      "result pair (return data, error, logs, post-state root, created address) to be equal, also with the tracer off and join points on with nothing bound, "
                      "on all 12 rule sets (Constantinople with and without Petersburg) and with extra EIPs; programs fold intermediate values into the returned/stored accumulator so that a "
                      "wrong opcode result is observable; besides random programs: the opcode x operand-class matrix, setter x observer pairs, nested call chains, CREATE sizes around the limits."),
                note="Trusted: TLC; go-ethereum v1.12.0 from the module cache as the reference implementation; both sides run on go-ethereum's StateDB prepared identically; the recorder hashes byte strings and clamps magnitudes, nothing else. A defect shared with the reference is invisible. Sampled (seeded), not exhaustive, except the opcode x operand-class matrix."),
    "C02": dict(fn=steptrace.check, engine="steptrace", design_ref="3.2, 4.3, 6 C02, App. E", category="model_checking", replay="see the cmd field of {path}",
                technique="trace validation with TLC: StepTrace.tla compares gas/cost/gasUsed/refund/leftover of every step and frame with the reference and checks the TLA+ gas rules",
                text=("Per step: gas before, cost; per frame: gas given and used; per run: refund counter and leftover must equal the reference's, under a gas-limit sweep that "
                      "places the limit one unit below, on and above every intermediate gas value of the top-level frame; independently the TLA+ rules check gas continuity "
                      "inside and across frames, out-of-gas exactly when cost > gas, constant-price tiers, the memory/copy/hash/log/exp/create schedule, the SSTORE price and refund "
                      "by fork (legacy, EIP-1283, 2200, 2929, 3529) with refunds accumulated over frames that did not fail, the message-call price (access, value, new account, "
                      "memory, 63/64 forwarding) and the EIP-2929 access list, which the specification keeps itself and compares with the implementation's answers."),
                note="Trusted: TLC; go-ethereum v1.12.0 from the module cache as the reference implementation; both sides run on go-ethereum's StateDB prepared identically; the recorder hashes byte strings and clamps magnitudes, nothing else. A defect shared with the reference is invisible. Sampled (seeded), not exhaustive, except the opcode x operand-class matrix."),
    "C18": dict(fn=steptrace.check, engine="steptrace", design_ref="4.3, 6 C18", category="model_checking", replay="see the cmd field of {path}",
                technique="trace validation with TLC: the callback stream is the trace; StepTrace.tla requires it to equal the reference stream event by event, plus paired inherited tracers",
                text=("Every CaptureStart/End/Enter/Exit/State/Fault callback with its arguments (pc, op, depth, stack top and hash, memory size and hash, return data, error, "
                      "from/to/input/value, output) must equal the reference's at the same position; struct logger, access-list, prestate (plain and diff), 4byte, call and "
                      "flat-call tracers are attached on both sides and their outputs compared (struct logger: log entries, GetResult and WriteTrace renderings with storage snapshots); balance of enter/exit under join-point aborts is decided by the frame machine (EvBalanced, C04/C05 scenarios)."),
                note="Trusted: TLC; go-ethereum v1.12.0 from the module cache as the reference implementation; both sides run on go-ethereum's StateDB prepared identically; the recorder hashes byte strings and clamps magnitudes, nothing else. A defect shared with the reference is invisible. Sampled (seeded), not exhaustive, except the opcode x operand-class matrix."),
    "C16": dict(fn=instances.check, engine="instances", design_ref="3.6, 6 C16", replay="see the cmd field of {path}",
                technique="TLC model checking of Instances.tla (Determinism, Isolation) + replay of TLC interleavings on real EVM instances + repeated solo runs compared byte for byte",
                text=("Each configuration (extra EIPs x transaction) is executed several times in fresh EVMs on equal pre-states, interleaved with the other configurations and "
                      "with concurrent instances following TLC-generated schedules; a digest of return data, gas, state root, logs, call tree and every journal query "
                      "including the order of ChildrenIndices/Children/IndicesOfChanges must be identical across repetitions and equal to the solo digest; the process-wide context-writer "
                      "object is part of the model (a reader instance must be refused whatever ran before in the process)."),
                note="Trusted: TLC; Go's map iteration randomisation as the source of order nondeterminism (3 children per key, 5/50 repetitions). Sampled interleavings (every 20th / every 2nd)."),
    "C17": dict(fn=instances.check, engine="instances", design_ref="3.6, 6 C17", replay="see the cmd field of {path}",
                technique="TLC model checking of Instances.tla (safety + liveness under fairness) + schedule replay on real EVM instances in gated goroutines (+ race detector, thorough)",
                text=("SharedImmutable, Isolation, PoolHygiene, CancelOnlyOwn, CancelStops are model-checked on the construction protocol (pick / copy iff extra EIPs / enable) with "
                      "deviation switches that each yield a counterexample; CancelLive is checked under weak fairness; TLC's interleavings of construct/step/cancel for two "
                      "instances are forced on real EVMs (a probe opcode enabled only by one instance's extra EIP must stay invalid in the other), Cancel is injected at every "
                      "position, results must equal solo results, frames must start with empty stacks, bookkeeping must be closed; free-running rounds add real parallelism; "
                      "for the shared context-writer object, attaching the caller and running the precompile are separate model steps replayed through a second gate inside EVM.Call."),
                note="Trusted: TLC; the gating tracer. Absence of data races is observed with `go build -race` in the thorough tier on the schedules that ran, not proved. Instances with equal extra EIPs are built from one shared Config.ExtraEips slice, which must come back unmodified."),
    "C06": dict(fn=jpgas.check, engine="jpgas", design_ref="6 C06", replay="see the cmd field of {path}",
                technique="TLC enumeration of JPGas.tla vectors executed with real WASM Aspects + TLC trace validation of the recorded gas figures (JPGasTrace.tla)",
                text=("For every vector the recorded gas at each Aspect's entry and exit, at the callee's first and last instruction and at the caller after the CALL must satisfy: "
                      "no Aspect leaves more than it got, Aspects of a join point chain exactly, the callee starts with what the pre join point left, the post join point "
                      "starts with what the callee left, the caller gets back exactly what the post join point left (nothing when the frame fails other than by revert), "
                      "never more than given and never more than a failing pre join point left, and an Aspect running out of gas yields the EVM's out-of-gas error with nothing returned; the structure (which Aspects and "
                      "whether the callee ran, error class) must be the model's."),
                note="Trusted: TLC; aspect-runtime's gas metering; what the caller really got back is derived from the caller's own gas before/after the CALL step, not from the exit callback."),
    "C03": dict(fn=fuzz.check, engine="fuzz", design_ref="6 C03", replay="see the cmd field of {path} (codec/precompile vectors: .build/verifh codec|precompile -one {path})",
                technique="trace validation with TLC (FuzzTrace.tla: no action for a panic, RestClosed after every result) on fuzzed executions + TLC-enumerated operand-class vectors",
                text=("Arbitrary byte code including the journal opcodes, the Cancun additions and calls of every kind to 0x64-0x66 runs behind recover(); the trace "
                      "specification has no action for a panic and requires the call-tree cursor to be nil and the next top-level call to be announced at depth 0 after every "
                      "run; the operand classes (0, 31/32/33, 2^31, 2^63, 2^64-1, 2^64, 2^255, 2^256-1) of every journal opcode and every payload shape of the precompiles "
                      "are enumerated by TLC and executed as well, together with the single-instruction operand matrix (operands around 2^64-32) and one program per memory-expanding instruction."),
                note="Trusted: TLC. Exhaustive only over operand classes and small structures; volume beyond that is seeded generation: a crash needing a specific 256-bit constant outside the class boundaries can be missed."),
    "C20": dict(fn=fuzz.check, engine="fuzz", design_ref="6 C20", replay="see the cmd field of {path}",
                technique="trace validation with TLC (FuzzTrace.tla work rule per instruction) on fuzzed executions + TLC-enumerated length classes for journal opcodes",
                text=("Every executed instruction is logged with the state reads/writes it performed and the gas it was charged; FuzzTrace.tla requires (reads+writes)*20 <= cost+40; "
                      "length fields of 2^10..2^20 in storage (VRJNAL) and 1000..2^256-1 in memory arguments are enumerated from JournalCodec.tla: a flat-fee instruction must "
                      "refuse them or stay within the bound, and the run may allocate at most WorkBound + RunAlloc bytes; memory growth per instruction must be paid for "
                      "(3*growth <= 32*(cost - forwarded gas + 2300) + 192) over one program per memory-expanding instruction with windows of 64 KiB..4 MiB; calls to precompiles "
                      "1-9 and 0x64-0x66 announcing lengths 0..2^256-1 may allocate at most 64 bytes per gas + 128 KiB. One known finding is recorded (VRJNAL on long stored strings)."),
                note="Trusted: TLC; the counting StateDB wrapper; runtime.MemStats.TotalAlloc around single-threaded runs. Orders of magnitude (bounded vs unbounded), not tight bounds; wall time is not judged."),
}

CHECKS = {p: m["fn"] for p, m in META.items()}

# properties not claimed yet, with the reason recorded in MANIFEST.not_applicable
PENDING = {}
