"""C06: spec/JPGas.tla vectors (real WASM Aspects burning gas / running out / trapping around a call) executed on the real EVM,
the recorded gas figures validated by spec/JPGasTrace.tla."""
import json, os, re, subprocess, tempfile, shutil
from vlib import *
import comp


def check(prop, tier):
    v = Verdict(prop, tier)
    build_harness()
    q = tier == "quick"
    cfgs = [{"MaxAspects": "1", "Gases": '{"ample"}'}] if q else [{"MaxAspects": "2", "Gases": '{"ample"}', "Bodies": '{"stop", "work", "invalid"}'},
                                                                 {"MaxAspects": "1", "Gases": '{"ample", "tight"}'}]
    for ov in cfgs:
        d = tempfile.mkdtemp(prefix="vjg.")
        try:
            trace = os.path.join(d, "trace.ndjson")
            r, stats = comp.emit_replay(v, "JPGasScn", "JPGas_base.cfg", "jpgas", 3000, overrides=ov, invariants=["Emit"], workers=2,
                                        sub_args=["-trace", trace], own_comps={"jg.panic"}, replay_key="vector", replay_hint="bin/check C06 " + tier)
            if r.get("byComp", {}).get("jg.setup"):
                raise InfraError("jpgas harness could not project some runs: %s" % json.dumps(r["samples"].get("jg.setup"))[:1500])
            for f in ("JPGas.tla", "JPGasTrace.tla", "JPGasTrace.cfg"):
                shutil.copy(os.path.join(SPEC, f), d)
            p = subprocess.run(["java", "-XX:+UseParallelGC", "-Xmx3g", "-Xss64m", "-cp", TLAJAR, "tlc2.TLC", "-metadir", os.path.join(d, "meta"), "-workers", "1",
                                "-config", "JPGasTrace.cfg", "JPGasTrace"], cwd=d, capture_output=True, text=True, timeout=1800)
            out = p.stdout + p.stderr
            m = re.search(r'^"JT (.*)"$', out, re.M)
            if not m or "Model checking completed" not in out:
                raise InfraError("JPGasTrace validation failed:\n" + out[-2500:])
            jt = json.loads(m.group(1).replace('\\"', '"').replace("\\\\", "\\"))
            v.add_tlc(parse_tlc_stats(out))
        finally:
            shutil.rmtree(d, ignore_errors=True)
        if jt["lines"] != r["byKind"].get("traced", 0):
            raise InfraError("TLC validated %d calls, the harness traced %d" % (jt["lines"], r["byKind"].get("traced", 0)))
        for b in jt["bad"]:
            for what in b["broken"]:
                v.candidate("jg.rule", "%s: %s (given %s, Aspect gas in %s out %s, callee first %s last %s, used %s, error %r)" %
                            (b["name"], what, b["t"]["given"], b["t"]["aen"], b["t"]["aex"], b["t"]["first"], b["t"]["last"], b["t"]["used"], b["t"]["err"]),
                            {"vector": b["name"], "trace_line": b["t"], "cmd": "bin/check C06 " + tier})
        c = jt["cnt"]
        for need in ("withpre", "withpost", "aspoog", "failed"):
            if c.get(need, 0) == 0:
                raise InfraError("rule coverage: no recorded call with '%s'" % need)
        rep = (r.get("byComp") or {}).get("jg.report")
        if rep:
            v.drift.append("%d calls: the frame's exit callback reports a gasUsed that differs from what the caller lost (pre-join-point failure path: stale figure) - outside C06's statement, e.g. %s"
                           % (rep, r["samples"]["jg.report"][0]["detail"]))
        v.notes.setdefault("runs", []).append({"overrides": ov, "vectors": r["histories"], "rule_coverage": c, "exit_callback_misreports": rep or 0})
    v.cov["exhaustive"] = True
    v.cov["rule"] = ("every vector of JPGas.tla: lists of <= 1 (thorough 2) Aspects per join point over {no burn, small, big, runs out of gas, traps} x callee {stops, works, reverts, "
                     "invalid instruction, runs out of gas} (x ample/tight gas in the thorough tier); each is executed with real WASM Aspects on the real EVM and the gas at every "
                     "Aspect entry/exit, at the callee's first and last instruction and at the caller after the call is validated against the rules of JPGas.tla by TLC")
    v.assumptions += ["TLC 1.8", "the Aspect runtime's own metering decides how much an Aspect burns (the rules are relational)", "revert-like Aspect failures are not generated (the runtime's revert error is a different value from the EVM's, F15)",
                      "what the caller gets back after a pre-join-point failure other than out-of-gas is not fixed by the property and not judged"]
    return v.finish()
