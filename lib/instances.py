"""C16 C17: spec/Instances.tla (shared jump tables, stack pool, abort flag; construction as pick/copy/enable) model-checked,
its interleavings replayed on real EVM instances in gated goroutines, solo repetitions for determinism, free-running rounds
(under the race detector in the thorough tier)."""
import json, os, subprocess, tempfile, shutil
from vlib import *
import comp

INV = ["TypeOK", "SharedImmutable", "Isolation", "Determinism", "CancelOnlyOwn", "PoolHygiene", "CancelStops"]
NEG = [("DevNoCopy", "SharedImmutable", '{"A"}'), ("DevDirtyPool", "PoolHygiene", '{"A"}'), ("DevSharedAbort", "CancelOnlyOwn", '{"A"}'),
       ("DevSharedCtx", "Isolation", '{"W", "R"}')]
OWN = {"C16": {"in.determinism", "in.isolation"},
       "C17": {"in.isolation", "in.cancel", "in.panic", "in.closed", "in.pool", "in.hang", "in.race"}}


def check(prop, tier):
    v = Verdict(prop, tier)
    build_harness()
    q = tier == "quick"
    for sw, inv, txs in NEG:
        comp.negative(v, "Instances", "Instances_base.cfg", sw, inv, invariants=[i for i in INV if sw != "DevSharedCtx" or i != "SharedImmutable"],
                      overrides={"Txs": txs, "WantSets": '{{"p0"}}'} if sw == "DevSharedCtx" else {"Txs": txs})
    # liveness: a cancelled running instance eventually stops (weak fairness of the instance's own steps, no state constraint)
    rc, out, stats = run_tlc("Instances", "Instances_live.cfg", 900, workers=4)
    if tlc_violation(out) or "Model checking completed" not in out:
        raise InfraError("liveness check of Instances.tla failed (specification bug):\n" + out[-2000:])
    v.add_tlc(stats)
    v.notes["liveness"] = {"property": "CancelLive under FairSpec", "tlc": stats}
    every = "20" if q else "2"
    reps = "5" if q else "50"
    free = "5" if q else "100"
    ov = None if q else {"WantSets": '{{}, {"p0"}, {"rp"}, {"p0", "rp"}}'}
    r, stats = comp.emit_replay(v, "InstancesScn", "Instances_base.cfg", "instances", 1500 if q else 3400, invariants=INV + ["Emit"], overrides=ov,
                                sub_args=["-every", every, "-reps", reps, "-free", free], own_comps=OWN[prop], replay_key="vector",
                                replay_hint="bin/check %s %s (the schedule is in the vector; instances = goroutines gated at JUMPDEST)" % (prop, tier))
    # the process-wide context-writer object: transactions W (CALL to 0x66) and R (the other call kinds), the caller attached and the
    # precompile run as separate steps (second gate in the wrapped Transfer function)
    ov2 = {"Txs": '{"W", "R"}', "WantSets": '{{}, {"p0"}}' if q else '{{}, {"p0"}, {"p0", "rp"}}'}
    r2, stats2 = comp.emit_replay(v, "InstancesScn", "Instances_base.cfg", "instances", 1500 if q else 3400, invariants=INV + ["Emit"], overrides=ov2,
                                  sub_args=["-every", "10" if q else "2", "-reps", "2", "-free", "4" if q else "40"], own_comps=OWN[prop], replay_key="vector",
                                  replay_hint="bin/check %s %s (the schedule is in the vector; gates at JUMPDEST and inside EVM.Call on 0x66)" % (prop, tier))
    v.notes["replay_context_writer"] = {"overrides": ov2, "behaviours_replayed": r2["histories"], "mismatching_components": r2.get("byComp"), "tlc": stats2}
    v.notes["replay"] = {"behaviours_replayed": r["histories"], "every": int(every), "solo_repetitions_per_config": int(reps), "free_running_rounds": int(free),
                         "by_kind": r.get("byKind"), "mismatching_components": r.get("byComp"), "tlc": stats}
    if not q and prop == "C17":
        race = build_harness(race=True)
        d = tempfile.mkdtemp(prefix="vrace.")
        try:
            p = subprocess.run([race, "instances", "-out", os.path.join(d, "r.json"), "-reps", "2", "-free", "200"], input="", capture_output=True, text=True, env=GOENV, timeout=3000)
            races = [b for b in p.stderr.split("==================") if "DATA RACE" in b]
            mine = [b for b in races if "artela-evm/" in b]
            v.notes["race_detector"] = {"free_running_rounds": 200, "reports": len(races), "reports_touching_artela_evm": len(mine)}
            for b in mine[:3]:
                v.candidate("in.race", "data race with artela-evm code on a stack: " + b.strip()[:1500], {"cmd": ".build/verifh_race instances -reps 2 -free 200 < /dev/null"})
        finally:
            shutil.rmtree(d, ignore_errors=True)
    v.cov["exhaustive"] = False
    v.cov["rule"] = ("Instances.tla is model-checked exhaustively for 2 instances x 2 loop iterations x extra-EIP sets over {3855 (adds an opcode), 1884 (reprices opcodes in place, pre-Istanbul fork)} x 2 transactions x Cancel at any point, and for the two context-writer transactions (CALL / the other call kinds on 0x66, caller attached and precompile run as separate steps) "
                     "(safety invariants; CancelLive under weak fairness); every %s-th complete interleaving is replayed on real EVMs in gated goroutines and each instance's full "
                     "observable outcome (result, gas, state root, logs, call tree, every journal query in returned order) must equal its solo outcome; every configuration "
                     "runs alone %s times on equal pre-states (byte-identical digests required); %s free-running rounds of 8 concurrent instances; "
                     "non-trivial = the two instances differ in extra EIPs") % (every, reps, free)
    v.assumptions += ["TLC 1.8", "the gate parks an instance at JUMPDEST in CaptureState: interleavings inside NewEVMInterpreter are covered by the model only (a write to a shared table persists and is seen by later probes)",
                      "data races are observed by the race detector on the schedules that ran (thorough tier), not proved absent"]
    return v.finish()
