"""C01 C02 C18: code -> model. Generated standard programs run on the Artela EVM and on go-ethereum v1.12.0 with identical
recorders (verifh trace); spec/StepTrace.tla validates every pair of callback streams: refinement field by field plus the
step rules of the EVM (gas continuity, out-of-gas, pc/stack progression, price schedule)."""
import json, os, re, subprocess, tempfile, shutil, time
from concurrent.futures import ThreadPoolExecutor
from vlib import *

STD_FORKS = ["Frontier", "Homestead", "Tangerine", "Spurious", "Byzantium", "Constantinople", "Petersburg", "Istanbul", "Berlin", "London", "Merge", "Shanghai"]
OWN = {"C01": {"result"}, "C02": {"gas"}, "C18": {"stream", "tracerout"}, "C07": {"treeshape"}, "C08": {"treecontent", "treeshape"}, "C05": {"jpseq"}, "C13": {"baljournal"}}


def plan(prop, tier):
    q = tier == "quick"
    if prop == "C01":
        return dict(n=500 if q else 6000, matrix=10 if q else 1, sweep=0, tracers_every=0, forks=STD_FORKS, limit=3000, batches=8 if q else 32)
    if prop == "C02":
        return dict(n=250 if q else 2500, matrix=30 if q else 3, sweep=12 if q else 60, tracers_every=0, forks=STD_FORKS, limit=3000, batches=8 if q else 96)
    if prop == "C05":
        return dict(n=400 if q else 5000, matrix=300 if q else 20, sweep=0, tracers_every=0, forks=STD_FORKS + ["Cancun"], limit=3000, batches=8 if q else 32, jp_every=1)
    if prop in ("C07", "C08", "C13"):
        return dict(n=400 if q else 5000, matrix=300 if q else 20, sweep=0, tracers_every=0, forks=STD_FORKS + ["Cancun"], limit=3000, batches=8 if q else 32)
    return dict(n=300 if q else 3000, matrix=60 if q else 8, sweep=2, tracers_every=2, forks=STD_FORKS, limit=3000, batches=8 if q else 32)


def validate(batch, workdir):
    """Run TLC (one worker) on one batch file; return the parsed ST report."""
    w = tempfile.mkdtemp(prefix="vst.", dir=workdir)
    for f in ("StepTrace.tla", "EVMOps.tla", "StepTrace.cfg"):
        shutil.copy(os.path.join(SPEC, f), w)
    os.symlink(batch, os.path.join(w, "trace.ndjson"))
    cmd = ["java", "-XX:+UseParallelGC", "-Xmx5g", "-Xss64m", "-cp", TLAJAR, "tlc2.TLC", "-metadir", os.path.join(w, "meta"), "-workers", "1",
           "-config", "StepTrace.cfg", "StepTrace"]
    p = subprocess.run(cmd, cwd=w, capture_output=True, text=True, timeout=3000)
    out = p.stdout + p.stderr
    m = re.search(r'^"ST (.*)"$', out, re.M)
    if not m or "Model checking completed" not in out:
        raise InfraError("StepTrace validation failed on %s:\n%s" % (batch, out[-3000:]))
    body = m.group(1).replace('\\"', '"').replace("\\\\", "\\")
    st = parse_tlc_stats(out)
    return json.loads(body), st


def check(prop, tier):
    v = Verdict(prop, tier)
    build_harness()
    run(v, prop, tier)
    return v.finish()


def run(v, prop, tier):
    """Record, validate with StepTrace.tla, fold into the verdict (shared by C01 C02 C18 and the tree part of C07 C08)."""
    pl = plan(prop, tier)
    work = tempfile.mkdtemp(prefix="vtrace.")
    try:
        cmd = [VERIFH, "trace", "-out", work, "-seed", str(seed()), "-n", str(pl["n"]), "-forks", ",".join(pl["forks"]), "-matrix", str(pl["matrix"]),
               "-sweep", str(pl["sweep"]), "-batches", str(pl["batches"]), "-tracers-every", str(pl["tracers_every"]), "-limit", str(pl["limit"]), "-jp-every", str(pl.get("jp_every", 3))]
        t0 = time.time()
        p = subprocess.run(cmd, capture_output=True, text=True, env=GOENV, timeout=3400)
        if p.returncode != 0 or "TRACE-DONE" not in p.stdout:
            raise InfraError("trace recording failed:\n" + (p.stdout + p.stderr)[-3000:])
        rep = json.load(open(os.path.join(work, "report.json")))
        log("[trace] %d programs, %d paired runs, %d lines in %.1fs" % (rep["programs"], rep["runs"], rep["events"], time.time() - t0))
        t0 = time.time()
        with ThreadPoolExecutor(max_workers=8) as ex:
            results = list(ex.map(lambda b: validate(b, work), rep["files"]))
        log("[tlc] StepTrace validated %d batches in %.1fs" % (len(results), time.time() - t0))
    finally:
        shutil.rmtree(work, ignore_errors=True)
    tot = {}
    cnt = {}
    lines = 0
    for st, stats in results:
        v.add_tlc(stats)
        lines += st["lines"]
        for c, n in st["nviol"].items():
            tot[c] = tot.get(c, 0) + n
        for c, n in st["cnt"].items():
            cnt[c] = cnt.get(c, 0) + n
        for x in st["viol"]:
            comps = set(x["c"])
            what = x["what"]
            mine = comps & OWN[prop]
            detail = "run %s, line %d: Artela %s / reference %s" % (x["run"], x["l"], json.dumps(what["a"], sort_keys=True), json.dumps(what["r"], sort_keys=True))
            if mine:
                for c in sorted(mine):
                    v.candidate("trace." + c, detail, {"seed": seed(), "run": x["run"], "line": x["l"], "what": what,
                                                      "cmd": "VERIF_SEED=%d bin/check %s %s   (the run name is idx/generator/fork/entry/gas/config)" % (seed(), prop, tier)})
            elif comps == {"rule"}:
                v.drift.append("step rule '%s' rejects a step on which both implementations agree (specification gap): %s" % (what["r"].get("name"), detail[:300]))
            else:
                v.drift.append("%s differs outside %s's projection: %s" % (sorted(comps), prop, detail[:300]))
    # the sample list is bounded: a component that counted mismatches must be reported even if its samples were crowded out
    for c in sorted(OWN[prop]):
        if tot.get(c, 0) > 0 and not any(x[0] == "trace." + c for x in v.violations):
            v.candidate("trace." + c, "%d lines differ in component '%s' (no sample kept)" % (tot[c], c), {"seed": seed(), "cmd": "VERIF_SEED=%d bin/check %s %s" % (seed(), prop, tier)})
    if lines != rep["events"]:
        raise InfraError("TLC consumed %d lines, recorder wrote %d" % (lines, rep["events"]))
    for need in ("steps", "gascont", "constgas", "memgas", "callret", "results", "nodes", "refused", "trees", "forkgas", "refunds", "sstorerule", "callrule", "refundrule", "aclrule"):
        if cnt.get(need, 0) == 0:
            raise InfraError("rule coverage: '%s' never fired - generator too weak" % need)
    v.cov["traces_validated_against_impl"] += rep["runs"]
    v.cov["evaluations"] += rep["runs"] * 2
    v.cov["distinct_nontrivial"] += rep["programs"]
    v.cov["samples"] = (v.cov["samples"] + (rep.get("sample") or []))[:4]
    v.notes["trace_validation"] = {"plan": pl, "recorder": {k: rep[k] for k in ("programs", "runs", "events", "byName", "byFork", "byEntry", "sweepRuns", "distinctOpcodesExecuted")},
                                   "rule_coverage": cnt, "mismatches_by_component": tot}
    if prop in ("C05", "C07", "C08", "C13"):
        if prop == "C05" and cnt.get("firings", 0) == 0:
            raise InfraError("rule coverage: no join-point firing was validated")
        if prop == "C13" and (cnt.get("xfers", 0) == 0 or cnt.get("baljournals", 0) == 0):
            raise InfraError("rule coverage: no balance journal was validated")
        return
    v.cov["rule"] = ("seeded generators (structured stack-balanced programs over the whole standard opcode set with boundary operands, calls of all kinds among 3 contracts, "
                     "precompiles 1-9, CREATE/CREATE2, SELFDESTRUCT, LOGs; byte-level mutations; raw bytes; opcode x operand-class matrix; gas-limit sweep around every "
                     "intermediate gas value) x 12 rule sets x 6 entry points x {tracer, no tracer + join points on with nothing bound, extra EIPs}; every paired run is one "
                     "trace validated by StepTrace.tla; distinct = programs; the counts in notes.rule_coverage say how often each rule fired")
    v.assumptions += ["TLC 1.8", "go-ethereum v1.12.0 (module cache) is the oracle for values computed by ALU, hashing, environment and precompiles", "gas limits < 2^31 in validated runs",
                      "a step rule that rejects a step on which both implementations agree is reported as MODEL-DRIFT (specification gap), never as a violation"]
