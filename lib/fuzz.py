"""C03 C20: arbitrary byte code (journal opcodes, Cancun additions, Artela precompiles included) executed on the real EVM,
the run-level protocol and the per-instruction work validated by spec/FuzzTrace.tla; plus the operand-class vectors of
JournalCodec.tla / Precompile.tla for the boundaries random generation does not hit."""
import json, os, re, subprocess, tempfile, shutil, time
from concurrent.futures import ThreadPoolExecutor
from vlib import *
import codec, precomp

OWN = {"C03": {"crash", "rest", "protocol"}, "C20": {"work"}}


def validate(batch, workdir):
    w = tempfile.mkdtemp(prefix="vfz.", dir=workdir)
    for f in ("FuzzTrace.tla", "FuzzTrace.cfg"):
        shutil.copy(os.path.join(SPEC, f), w)
    os.symlink(batch, os.path.join(w, "trace.ndjson"))
    p = subprocess.run(["java", "-XX:+UseParallelGC", "-Xmx3g", "-Xss64m", "-cp", TLAJAR, "tlc2.TLC", "-metadir", os.path.join(w, "meta"), "-workers", "1",
                        "-config", "FuzzTrace.cfg", "FuzzTrace"], cwd=w, capture_output=True, text=True, timeout=3000)
    out = p.stdout + p.stderr
    m = re.search(r'^"FT (.*)"$', out, re.M)
    if not m or "Model checking completed" not in out:
        raise InfraError("FuzzTrace validation failed on %s:\n%s" % (batch, out[-2500:]))
    return json.loads(m.group(1).replace('\\"', '"').replace("\\\\", "\\")), parse_tlc_stats(out)


def check(prop, tier):
    v = Verdict(prop, tier)
    build_harness()
    q = tier == "quick"
    n = 4000 if q else 60000
    work = tempfile.mkdtemp(prefix="vfuzz.")
    try:
        p = subprocess.run([VERIFH, "fuzz", "-out", work, "-seed", str(seed()), "-n", str(n), "-batches", "8",
                            "-forks", "London,Cancun,Byzantium,Frontier,Berlin,Shanghai"], capture_output=True, text=True, env=GOENV, timeout=3000)
        if p.returncode != 0 or "FUZZ-DONE" not in p.stdout:
            raise InfraError("fuzz run failed (a fatal error of the Go runtime would show here):\n" + (p.stdout + p.stderr)[-3000:])
        rep = json.load(open(os.path.join(work, "report.json")))
        with ThreadPoolExecutor(max_workers=8) as ex:
            results = list(ex.map(lambda b: validate(b, work), rep["files"]))
    finally:
        shutil.rmtree(work, ignore_errors=True)
    cnt, lines = {}, 0
    for ft, stats in results:
        v.add_tlc(stats)
        lines += ft["lines"]
        for k, x in ft["cnt"].items():
            cnt[k] = max(cnt.get(k, 0), x) if k == "maxreads" else cnt.get(k, 0) + x
        for b in ft["bad"]:
            e = b["e"]
            if b["c"] in OWN[prop]:
                what = {"crash": "the VM panicked: %s" % e.get("panic"), "rest": "bookkeeping not closed after the run (cursor nil: %s, next top-level call announced at depth 0: %s)" % (e.get("cursornil"), e.get("start")),
                        "protocol": "a call began while another was open", "work": "opcode 0x%x performed %s state reads and %s writes and grew memory by %s bytes for %s gas (of which %s handed to the callee)" % (e.get("op", 0), e.get("reads"), e.get("writes"), e.get("grow"), e.get("cost"), e.get("fwd"))}[b["c"]]
                v.candidate("fuzz." + b["c"], "run %s: %s" % (e.get("run"), what), {"seed": seed(), "run": e.get("run"), "line": e, "cmd": "VERIF_SEED=%d bin/check %s %s   (run = index/generator/fork/entry)" % (seed(), prop, tier)})
            else:
                v.drift.append("fuzz.%s outside %s: %s" % (b["c"], prop, json.dumps(e)[:300]))
    if lines != rep["lines"]:
        raise InfraError("TLC consumed %d lines, the harness wrote %d" % (lines, rep["lines"]))
    if cnt.get("journal", 0) == 0 or cnt.get("work", 0) == 0:
        raise InfraError("generator too weak: no journal-opcode step was executed")
    if cnt.get("biggrows", 0) == 0:
        raise InfraError("generator too weak: no instruction grew memory by 64 KiB or more")
    v.cov["traces_validated_against_impl"] += rep["runs"]
    v.cov["evaluations"] += rep["runs"]
    v.cov["distinct_nontrivial"] += rep["runs"]
    v.notes["fuzz"] = {"runs": rep["runs"], "lines": rep["lines"], "rule_coverage": cnt}
    # operand-class vectors
    codec.run(v, prop, tier)
    precomp.run(v, prop, tier)
    v.cov["rule"] = ("seeded programs (structured / mutated / raw bytes) that include the journal opcodes 0xe0-0xe7 with arbitrary operands and memory, TLOAD/TSTORE/MCOPY and calls of every kind "
                     "to 0x64-0x66 with arbitrary payloads, on 6 forks, join points on/off, 6 entry points, each behind recover(); one trace per run validated by FuzzTrace.tla "
                     "(no action for a panic; bookkeeping closed after every result; (reads+writes)*20 <= cost+40 and 3*memory growth <= 32*(cost - gas handed to the callee + 2300) + 192 for every instruction); plus every operand-class vector of "
                     "JournalCodec.tla and Precompile.tla (C20: calls to precompiles 1-9 and 0x64-0x66 announcing lengths 0..2^256-1, bytes allocated by the whole call <= AllocPerGas*gas + AllocSlack)")
    v.assumptions += ["TLC 1.8", "an unrecoverable Go runtime error (out of memory, stack exhaustion) kills the harness process and is reported as a machinery failure with its output",
                      "work = state reads and writes counted by a wrapping StateDB between two callbacks of the same frame; allocation of journal opcodes is bounded indirectly (they cannot read beyond existing memory); allocation of precompile calls is runtime.MemStats.TotalAlloc around the call in a single-threaded process"]
    return v.finish()
