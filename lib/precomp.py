"""C14 (and the precompile part of C03): spec/Precompile.tla payload vectors executed on the real 0x64/0x65/0x66."""
from vlib import *
import comp

INV = ["WriteInside", "CanonicalAccepted"]
OWN = {"C14": {"pc.decode", "pc.attr", "pc.return", "pc.gas", "pc.fork", "pc.panic"}, "C03": {"pc.panic"}, "C20": {"pc.work"}}
KINDS = {"C14": '{"read", "sender", "write", "attr"}', "C03": '{"read", "sender", "write", "attr", "work"}', "C20": '{"work"}'}


def run(v, prop, tier):
    q = tier == "quick"
    ov = {"Forks": '{"Istanbul", "Berlin", "London", "Cancun"}' if q else '{"Istanbul", "Berlin", "London", "Merge", "Shanghai", "Cancun"}', "Kinds": KINDS[prop]}
    r, stats = comp.emit_replay(v, "PrecompileScn", "Precompile_base.cfg", "precompile", 900, overrides=ov, invariants=INV + ["Emit"], workers=4,
                                own_comps=OWN[prop], replay_key="vector", replay_hint=".build/verifh precompile -one <this file>")
    fees = r.get("fees") or {}
    per = {}
    for k, f in fees.items():
        per.setdefault(k.split("#")[0], set()).add(f)
    v.notes["precompile_fees_observed"] = {k: sorted(x) for k, x in per.items()}
    if r.get("work"):
        v.notes["precompile_work_vectors"] = r["work"]
    if prop == "C20" and not r.get("work"):
        raise InfraError("no work vector reached the precompiles")
    if prop == "C14":
        if set(per) != {"read", "write", "sender"}:
            raise InfraError("no fee observation for some precompile: %s" % per)
        for pc, fs in per.items():
            if len(fs) != 1 or 0 in fs:
                v.candidate("pc.gas", "precompile %s does not charge one fixed non-zero fee over all accepted payloads: %s" % (pc, sorted(fs)),
                            {"fees": {k: sorted(x) for k, x in per.items()}, "cmd": "bin/check C14 quick"})
    v.notes.setdefault("runs", []).append({"overrides": ov, "vectors": r["histories"], "accepted_payloads": r.get("nontrivial"),
                                            "by_kind": r.get("byKind"), "mismatching_components": r.get("byComp"), "tlc": stats})
    return r


def check(prop, tier):
    v = Verdict(prop, tier)
    build_harness()
    run(v, prop, tier)
    # the frame machine supplies the attribution expectation in call trees (CtxWriteAttr, NoCrash)
    import frame
    q = tier == "quick"
    ov = {"Ops": '{"CALL", "STOP", "REVERT"}', "CallKinds": frame.ALLK, "Targets": '{"a", "b", "pw"}', "Values": "{0}",
          "MaxInstr": "3", "MaxNodes": "3" if q else "4", "MaxFailPos": "0", "JPInit": "{FALSE}", "MaxTop": "1" if q else "2"}
    frame.INV["C14"] = ["TypeOK", "NoCrash", "CtxWriteAttr"]
    rr = frame.replay(v, "C14", ov, ["London"] if q else ["Berlin", "Cancun"], 1500)
    v.notes["frame_scenarios"] = {"overrides": ov, "scenarios": rr["scenarios"], "mismatching_components": rr.get("byComp")}
    v.cov["exhaustive"] = True
    v.cov["rule"] = ("every vector of Precompile.tla: 0x66 payloads of 128..320 bytes x head words {0,32,..,320, 2^63, 2^64-32, 2^64-1, 2^64, 2^256-1}^2 x length words "
                     "{0,1,32,33,64,65,224, 2^31..2^256-1}^2 plus truncated lengths; 0x64 and 0x65 payload lengths around their minimum; each precompile x "
                     "CALL/CALLCODE/DELEGATECALL/STATICCALL x caller depth 1-2 x forks before/after Berlin. Each is executed on the real EVM; the arguments that "
                     "reach the host callbacks, the return data, the error and the fee are compared with the model's decode. non-trivial = accepted payloads and attribution vectors.")
    v.assumptions += ["TLC 1.8", "a payload is well-formed iff every head/length word keeps its argument inside the payload (no wrap-around) and the payload has the minimum length",
                      "CALLCODE/DELEGATECALL/STATICCALL to 0x66 may be refused or attributed to the calling contract (the property allows both)"]
    return v.finish()
