"""Shared machinery of /verif/bin/check: build, TLC runs, evidence, verdicts.

Verdict policy (DESIGN.md section 5):
  exit 0  property held on everything explored (KNOWN-FINDING lines allowed)
  exit 1  + "VIOLATION property=<id> replay=<path>": real-code behaviour violates the property
  exit 2  the machinery itself failed (build, TLC, timeout, spec/oracle disagreement)
"""
import json, os, re, subprocess, sys, time, shutil, tempfile, hashlib

ROOT = os.path.dirname(os.path.dirname(os.path.abspath(__file__)))
SPEC = os.path.join(ROOT, "spec")
HARNESS = os.path.join(ROOT, "harness")
# The registered commands decide /repo and write under /verif.  Two overrides exist for mutation testing of the machinery itself
# (bin/seedtest -w): VERIF_REPO names another checkout of artela-evm to decide, VERIF_OUT another root for build output, evidence and replays.
REPO = os.environ.get("VERIF_REPO", "/repo")
OUT = os.environ.get("VERIF_OUT", ROOT)
BUILD = os.path.join(OUT, ".build")
VERIFH = os.path.join(BUILD, "verifh")
EVID = os.path.join(OUT, "evidence")
REPLAYS = os.path.join(OUT, "replays")
TLAJAR = "/opt/veriftools/tla/tla2tools.jar:/opt/veriftools/tla/CommunityModules-deps.jar"

GOENV = dict(os.environ, GOFLAGS="-mod=mod", GOPROXY="off", GOSUMDB="off", GOTOOLCHAIN="local")


class InfraError(Exception):
    pass


def seed():
    try:
        return int(os.environ.get("VERIF_SEED", "1"))
    except ValueError:
        return 1


def log(*a):
    print(*a, file=sys.stderr, flush=True)


def build_harness(race=False):
    """Rebuild the harness against /repo's current working tree (hooks tag on)."""
    os.makedirs(BUILD, exist_ok=True)
    import fcntl
    out = VERIFH + ("_race" if race else "")
    tmp = out + ".%d.tmp" % os.getpid()
    mod = []
    if REPO != "/repo":
        alt = os.path.join(BUILD, "alt.mod")
        with open(os.path.join(HARNESS, "go.mod")) as f:
            txt = f.read().replace("=> /repo", "=> " + REPO)
        with open(alt, "w") as f:
            f.write(txt)
        shutil.copy(os.path.join(HARNESS, "go.sum"), os.path.join(BUILD, "alt.sum"))
        mod = ["-modfile", alt]
    cmd = ["go", "build", "-tags", "verif"] + mod + (["-race"] if race else []) + ["-o", tmp, "./cmd/verifh"]
    t0 = time.time()
    with open(os.path.join(BUILD, ".lock"), "w") as lk:
        fcntl.flock(lk, fcntl.LOCK_EX)      # concurrent checks share one output path
        p = subprocess.run(cmd, cwd=HARNESS, env=GOENV, capture_output=True, text=True)
        if p.returncode != 0:
            raise InfraError("harness build failed (does /repo still compile?):\n" + p.stdout + p.stderr)
        os.replace(tmp, out)
    log("[build] harness built in %.1fs" % (time.time() - t0))
    return out


_STATS = re.compile(r"^(\d+) states generated, (\d+) distinct states found", re.M)


def parse_tlc_stats(text):
    m = None
    for m in _STATS.finditer(text):
        pass
    if not m:
        return None
    return {"generated": int(m.group(1)), "distinct": int(m.group(2))}


def tlc_scratch(extra_files=()):
    w = tempfile.mkdtemp(prefix="vtlc.")
    for f in os.listdir(SPEC):
        if f.endswith(".tla") or f.endswith(".cfg"):
            shutil.copy(os.path.join(SPEC, f), w)
    for f in extra_files:
        shutil.copy(f, w)
    return w


def tlc_cmd(workdir, module, cfg, workers=16, extra=(), heap="12g"):
    return ["java", "-XX:+UseParallelGC", "-Xmx" + heap, "-Xss64m", "-cp", TLAJAR, "tlc2.TLC",
            "-metadir", os.path.join(workdir, "meta"), "-workers", str(workers), "-config", cfg] + list(extra) + [module]


def write_cfg(workdir, name, base_cfg, overrides=None, invariants=None, properties=None, drop_properties=False):
    """Derive a cfg from a base cfg in spec/: override constants, replace invariant list."""
    text = open(os.path.join(SPEC, base_cfg)).read()
    for k, v in (overrides or {}).items():
        text, n = re.subn(r"^(\s*%s\s*=\s*).*$" % re.escape(k), lambda m: m.group(1) + v, text, flags=re.M)
        if n == 0:
            raise InfraError("constant %s not in %s" % (k, base_cfg))
    if invariants is not None:
        text = re.sub(r"^INVARIANTS.*$", "INVARIANTS " + " ".join(invariants), text, flags=re.M)
    if drop_properties:
        text = re.sub(r"^PROPERTIES.*$", "", text, flags=re.M)
    if properties is not None:
        text = re.sub(r"^PROPERTIES.*$", "", text, flags=re.M) + "\nPROPERTIES " + " ".join(properties) + "\n"
    open(os.path.join(workdir, name), "w").write(text)
    return name


def run_tlc(module, cfg, timeout, workers=16, extra=(), overrides=None, invariants=None, properties=None,
            drop_properties=False, extra_files=(), pipe_to=None, heap="12g"):
    """Run TLC in a scratch copy of spec/. If pipe_to is a command, TLC's stdout is piped into it and
    that command's stdout is returned. Returns (rc, output, stats)."""
    w = tlc_scratch(extra_files)
    try:
        cfgname = cfg
        if overrides or invariants is not None or properties is not None or drop_properties:
            cfgname = write_cfg(w, "_derived_" + cfg, cfg, overrides, invariants, properties, drop_properties)
        cmd = tlc_cmd(w, module, cfgname, workers, extra, heap)
        t0 = time.time()
        if pipe_to:
            p1 = subprocess.Popen(cmd, cwd=w, stdout=subprocess.PIPE, stderr=subprocess.STDOUT)
            p2 = subprocess.Popen(pipe_to, stdin=p1.stdout, stdout=subprocess.PIPE, stderr=subprocess.STDOUT, text=True, env=GOENV)
            p1.stdout.close()
            try:
                out, _ = p2.communicate(timeout=timeout)
            except subprocess.TimeoutExpired:
                p1.kill(); p2.kill()
                raise InfraError("TLC pipeline timed out after %ds (%s %s)" % (timeout, module, cfg))
            rc = p1.wait()
            if p2.returncode not in (0,):
                raise InfraError("harness consumer failed rc=%s:\n%s" % (p2.returncode, out[-3000:]))
        else:
            try:
                p = subprocess.run(cmd, cwd=w, capture_output=True, text=True, timeout=timeout)
            except subprocess.TimeoutExpired:
                raise InfraError("TLC timed out after %ds (%s %s)" % (timeout, module, cfg))
            rc, out = p.returncode, p.stdout + p.stderr
        stats = parse_tlc_stats(out)
        log("[tlc] %s %s rc=%d %.1fs %s" % (module, cfg, rc, time.time() - t0, stats))
        return rc, out, stats
    finally:
        shutil.rmtree(w, ignore_errors=True)


def tlc_ok(rc, out):
    return rc == 0 and "No error has been found" in out or (rc == 0 and "Model checking completed" in out)


def tlc_violation(out):
    """Name of the violated invariant/property in a TLC run, or None."""
    m = re.search(r"Invariant (\w+) is violated", out)
    if m:
        return m.group(1)
    m = re.search(r"Action property (\w+) is violated", out)
    if m:
        return m.group(1)
    if "Temporal properties were violated" in out or "is violated" in out:
        return "temporal"
    return None


# --------------------------------------------------------------------------
# known findings

def load_known():
    p = os.path.join(ROOT, "known_findings.json")
    if not os.path.exists(p):
        return {"findings": [], "fixed": []}
    return json.load(open(p))


def match_known(prop, comp, detail, known):
    for f in known.get("findings", []):
        if f.get("property") != prop:
            continue
        if f.get("comp") and f["comp"] != comp:
            continue
        if f.get("detail_regex") and not re.search(f["detail_regex"], detail):
            continue
        return f
    return None


# --------------------------------------------------------------------------
# evidence and verdict

class Verdict:
    def __init__(self, prop, tier):
        self.prop, self.tier = prop, tier
        self.t0 = time.time()
        self.violations = []   # (what, replay_obj)
        self.known_hits = []   # (finding, what)
        self.drift = []        # text
        self.cov = {"states": 0, "transitions": 0, "traces_validated_against_impl": 0, "samples": [],
                    "evaluations": 0, "distinct_nontrivial": 0, "rule": "", "exhaustive": False}
        self.assumptions = []
        self.notes = {}
        self.known = load_known()

    def candidate(self, comp, what, replay_obj):
        """A real-code observation that contradicts the property's projection."""
        k = match_known(self.prop, comp, what, self.known)
        if k:
            if not any(x[0].get("id") == k.get("id") for x in self.known_hits):
                self.known_hits.append((k, what))
        else:
            self.violations.append((comp, what, replay_obj))

    def add_tlc(self, stats):
        if stats:
            self.cov["states"] += stats["distinct"]
            self.cov["transitions"] += stats["generated"]

    def finish(self):
        os.makedirs(EVID, exist_ok=True)
        os.makedirs(os.path.join(REPLAYS, self.prop), exist_ok=True)
        lines = []
        shown = {}
        for comp, what, obj in self.violations:
            shown[comp] = shown.get(comp, 0) + 1
            if shown[comp] > 3:
                continue
            h = hashlib.sha256(json.dumps(obj, sort_keys=True, default=str).encode()).hexdigest()[:12]
            path = os.path.join(REPLAYS, self.prop, "%s_%s.json" % (comp.replace(".", "_"), h))
            json.dump({"property": self.prop, "component": comp, "what": what, "replay": obj}, open(path, "w"), indent=1, default=str)
            lines.append("VIOLATION property=%s replay=%s" % (self.prop, path))
            log("  " + comp + ": " + what)
        for k, what in self.known_hits:
            print("KNOWN-FINDING: property=%s %s" % (self.prop, k.get("what", what)))
        for d in self.drift[:10]:
            log("MODEL-DRIFT: " + d)
        ev = {
            "property_id": self.prop, "tier": self.tier, "seed": seed(), "level": "model_checking",
            "coverage": self.cov, "assumptions": self.assumptions, "wall_s": round(time.time() - self.t0, 2),
            "violations": len(self.violations),
            "known_findings_hit": [k.get("id") for k, _ in self.known_hits],
            "model_drift": self.drift[:20], "notes": self.notes,
        }
        if not self.cov["samples"]:
            self.cov["samples"] = ["(none)"]
        json.dump(ev, open(os.path.join(EVID, self.prop + ".json"), "w"), indent=1, default=str)
        for l in lines:
            print(l)
        sys.stdout.flush()
        return 1 if self.violations else 0
