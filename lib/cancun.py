"""C15: spec/MCopy.tla vectors on the real MCOPY/TLOAD/TSTORE + transient-storage scenarios of the frame machine."""
from vlib import *
import comp, frame

frame.INV["C15"] = ["TypeOK", "TransientFresh", "Atomicity", "FailureSeen"]
frame.PROPS["C15"] = ["TransientLocal"]
frame.COMPS["C15"] = ["world.stor", "result.err", "flags", "world.logs"]


def check(prop, tier):
    v = Verdict(prop, tier)
    build_harness()
    q = tier == "quick"
    ov = {"MaxOff": "20" if q else "44", "MemSizes": "{0, 32, 96}" if q else "{0, 32, 64, 96}",
          "Forks": '{"Berlin", "London", "Shanghai", "Cancun"}' if q else '{"Frontier", "Byzantium", "Istanbul", "Berlin", "London", "Merge", "Shanghai", "Cancun"}'}
    r, stats = comp.emit_replay(v, "MCopyScn", "MCopy_base.cfg", "mcopy", 900 if q else 3000, overrides=ov, invariants=["MemMove", "Emit"], workers=8,
                                replay_key="vector", replay_hint=".build/verifh mcopy -one <this file>")
    v.notes["mcopy"] = {"overrides": ov, "vectors": r["histories"], "by_kind": r.get("byKind"), "mismatching_components": r.get("byComp"), "tlc": stats}
    # transient storage in call trees: per address, reverted with the frame, refused in static frames, fresh per transaction, invalid before Cancun
    base = {"Ops": '{"TSTORE", "T2S", "CALL", "STOP", "REVERT", "INVALID"}', "CallKinds": frame.ALLK, "Targets": '{"a", "b"}', "Values": "{0}",
            "MaxFailPos": "0", "JPInit": "{FALSE}", "MaxTop": "2", "MaxInstr": "3" if q else "4", "MaxNodes": "3", "SVals": "{0, 1, 2}"}
    for cancun, forks in (("TRUE", ["Cancun"]), ("FALSE", ["London"] if q else ["London", "Shanghai"])):
        o = dict(base, Cancun=cancun)
        if cancun == "FALSE":
            o["MaxInstr"] = "3"
        rr = frame.replay(v, "C15", o, forks, 1500 if q else 3000)
        v.notes.setdefault("scn_runs", []).append({"overrides": o, "forks": forks, "scenarios": rr["scenarios"], "mismatching_components": rr.get("byComp")})
    v.cov["exhaustive"] = True
    v.cov["rule"] = ("every (initial memory size, dst, src, len) in the stated ranges plus 2^31..2^256-1 classes is executed on the real MCOPY and the returned memory "
                     "and the charged gas are compared with the TLA+ memmove/expansion/gas functions; TLOAD/TSTORE fees and opcode validity per fork likewise; every "
                     "behaviour of the frame machine over TSTORE / TLOAD-then-SSTORE / calls of all kinds / REVERT / INVALID / two top-level transactions is "
                     "replayed on the real EVM (Cancun and pre-Cancun) and the transient values made visible through storage must equal the model's.")
    v.assumptions += ["TLC 1.8", "StateDB.Prepare (called by the host before every transaction) is what empties transient storage", "memory sizes <= 96 bytes before the copy; offsets <= 24 (thorough 44)"]
    return v.finish()
