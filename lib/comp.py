"""Component models (KeyTree, CallTracer, JournalCodec, Precompile, MCopy, ...): TLC enumerates or samples the
model's behaviours / vectors, prints each as one JSON line, and a harness subcommand replays it on the real code."""
import json, os, tempfile, shutil
from vlib import *


def emit_replay(v, module, cfg, sub, timeout, overrides=None, invariants=None, properties=None, extra=(), sub_args=(),
                workers=8, own_comps=None, count_key="histories", nontrivial_key="nontrivial", replay_key="history",
                replay_hint=""):
    """Run `tlc module cfg | verifh sub -out rep.json`, fold the report into the verdict. Returns the report."""
    d = tempfile.mkdtemp(prefix="vrep.")
    rep = os.path.join(d, "rep.json")
    try:
        rc, out, stats = run_tlc(module, cfg, timeout, workers=workers, overrides=overrides, invariants=invariants,
                                 properties=properties, drop_properties=properties is None, extra=extra,
                                 pipe_to=[VERIFH, sub, "-out", rep] + list(sub_args))
        bad = tlc_violation(out)
        if bad:
            raise InfraError("design model %s violates %s with all deviation switches off (specification bug):\n%s" % (module, bad, out[-3000:]))
        if "Model checking completed" not in out and "-simulate" not in extra:
            raise InfraError("TLC did not complete (%s %s):\n%s" % (module, cfg, out[-2500:]))
        if "-simulate" in extra and "Finished in" not in out:
            raise InfraError("TLC simulation did not run to its end (%s %s):\n%s" % (module, cfg, out[-2500:]))
        if not os.path.exists(rep):
            raise InfraError("replayer wrote no report:\n" + out[-2000:])
        r = json.load(open(rep))
    finally:
        shutil.rmtree(d, ignore_errors=True)
    if r.get("parseErrors"):
        raise InfraError("replayer could not parse %d lines" % r["parseErrors"])
    if not r.get(count_key):
        raise InfraError("no behaviour reached the replayer (%s %s):\n%s" % (module, cfg, out[-1500:]))
    v.add_tlc(stats)
    v.cov["traces_validated_against_impl"] += r[count_key]
    v.cov["evaluations"] += r[count_key]
    v.cov["distinct_nontrivial"] += r.get(nontrivial_key, 0)
    for ex in r.get("example") or []:
        if len(v.cov["samples"]) < 3:
            v.cov["samples"].append(ex)
    for comp, n in sorted((r.get("byComp") or {}).items()):
        samples = (r.get("samples") or {}).get(comp) or []
        if own_comps is None or comp in own_comps:
            for s in samples:
                v.candidate(comp, "%s (%d cases affected)" % (s["detail"], n), {replay_key: s.get(replay_key), "cmd": replay_hint})
        else:
            v.drift.append("%s: %d cases differ outside this property's projection, e.g. %s" % (comp, n, samples[0]["detail"] if samples else "?"))
    return r, stats


def negative(v, module, cfg, switch, expect_inv, timeout=600, overrides=None, invariants=None, properties=None):
    """The deviation switch that reproduces a (fixed or recorded) defect must make TLC violate the invariant: non-vacuity."""
    ov = dict(overrides or {})
    ov[switch] = "TRUE"
    rc, out, stats = run_tlc(module, cfg, timeout, overrides=ov, invariants=invariants, properties=properties,
                             drop_properties=properties is None)
    got = tlc_violation(out)
    v.notes.setdefault("negative_configs", []).append({"module": module, "switch": switch, "expected": expect_inv, "tlc_found": got})
    if got is None:
        raise InfraError("negative config %s=TRUE of %s did not violate %s: the invariant is vacuous\n%s" % (switch, module, expect_inv, out[-1500:]))
