"""C11: spec/KeyTree.tla, every API history within the bound replayed on a real vm.Tracer."""
from vlib import *
import comp

INV = ["TypeOK", "LookupAgree", "ChangeVisibleBoth", "ChildIndicesExact", "NodeTypeExact"]
PROPS = ["RefuseIdempotent", "NodeTypeMonotone"]
# kt.ntype (node type of a key: branch until its first change, data afterwards) is modelled and replayed but is not part of C11's text:
# a disagreement there is reported as MODEL-DRIFT, not as a violation
OWN = ("kt.panic", "kt.refuse", "kt.accept", "kt.unchanged", "kt.lookup", "kt.change", "kt.kids")


def check(prop, tier):
    v = Verdict(prop, tier)
    build_harness()
    q = tier == "quick"
    hint = ".build/verifh keytree -one <this file>"
    runs = []
    if q:
        cfgs = [({"MaxOps": "3"}, ()),
                # "z" is the zero type id: a lookup with it is a lookup like any other (no fallback to records of other types)
                ({"MaxOps": "3", "Types": '{"t", "z"}', "Offs": "{0, 32}", "Vals": '{"v"}'}, ())]
    else:
        cfgs = [({"MaxOps": "4", "Offs": "{0, 32}", "Vals": '{"v"}'}, ()),
                ({"MaxOps": "4", "Offs": "{0, 1}", "Types": '{"t"}', "MaxCalls": "2"}, ()),
                ({"MaxOps": "3", "Accts": '{"a", "b"}'}, ()),
                ({"MaxOps": "4", "Types": '{"t", "z"}', "Offs": "{0, 32}", "Vals": '{"v"}'}, ()),
                ({"MaxOps": "10", "Accts": '{"a", "b"}', "Slots": "{0, 1, 2}", "Names": '{"x", "y", "z"}', "NestIdx": '{"x", "y", ""}', "MaxCalls": "3"},
                 ("-simulate", "num=1200", "-depth", "11", "-seed", str(seed())))]   # ~180 successors per step are all emitted: ~2M histories
    comp.negative(v, "KeyTree", "KeyTree_base.cfg", "DevFirstWins", "LookupAgree", invariants=INV, overrides={"MaxOps": "3"})
    for ov, extra in cfgs:
        sim = "-simulate" in extra
        r, stats = comp.emit_replay(v, "KeyTreeScn", "KeyTree_base.cfg", "keytree", 1500 if q else 3400, overrides=ov,
                                    invariants=INV + ["Emit"], properties=None if sim else PROPS, extra=extra,
                                    workers=1 if sim else 8, replay_hint=hint, own_comps=OWN)
        runs.append({"overrides": ov, "simulate": sim, "histories": r["histories"], "ops": r["ops"], "by_outcome": r["byRes"],
                     "mismatching_components": r["byComp"], "tlc": stats})
    v.notes["runs"] = runs
    v.cov["exhaustive"] = True
    v.cov["rule"] = ("every reachable state of KeyTree.tla within the constants is a complete history of register-top-level / register-nested / "
                     "journal-change / enter-call / exit-call operations (well-formed: path <-> (slot, offset, type) one-to-one per account; refusals and "
                     "repeats included); each is replayed on a fresh vm.Tracer through SaveStateKey/SaveStateChange/SaveCall/ExitCall and all of "
                     "FindKeyIndices/Variable/Slot/ChildrenIndices/IndicesOfChanges/Children (element by element, in order) are compared with the ghost "
                     "registration record, NodeType with the modelled branch->data transition (drift only); "
                     "non-trivial = at least one registered key and two operations")
    v.assumptions += ["TLC 1.8", "registration sequences are well-formed (one name path per (slot, offset, type) and vice versa within an account)",
                      "thorough tier adds random histories of length 10 by tlc -simulate (not exhaustive)"]
    return v.finish()
