"""C19: spec/CallTracer.tla, every well-nested callback stream within the bound fed to the real callTracer / flatCallTracer."""
from vlib import *
import comp

INV = ["TypeOK", "NoCrash", "FiledUnderIssuer", "OwnResult", "FilterExact", "FlatDesign"]
NEG = [("DevOffByOne", "NoCrash"), ("DevExitFirstOfType", "OwnResult"), ("DevFlatFilterParent", "NoCrash")]


def check(prop, tier):
    v = Verdict(prop, tier)
    build_harness()
    q = tier == "quick"
    hint = ".build/verifh calltracer -one <this file>"
    for sw, inv in NEG:
        comp.negative(v, "CallTracer", "CallTracer_base.cfg", sw, inv, invariants=INV, overrides={"MaxNodes": "4"})
    if q:
        cfgs = [({"MaxNodes": "4"}, ()),
                ({"MaxNodes": "9", "MaxAsp": "3", "TxAsp": "2"}, ("-simulate", "num=3000", "-depth", "40", "-seed", str(seed())))]
    else:
        cfgs = [({"MaxNodes": "5", "MaxAsp": "3", "TxAsp": "2", "Errs": '{"", "revert", "oog"}'}, ()),
                ({"MaxNodes": "5", "Kinds": '{"CALL", "STATICCALL", "DELEGATECALL", "CREATE"}', "Errs": '{"", "oog"}'}, ()),
                ({"MaxNodes": "12", "MaxDepth": "4", "MaxWidth": "3", "MaxAsp": "3", "Errs": '{"", "revert", "oog"}',
                  "Kinds": '{"CALL", "STATICCALL", "DELEGATECALL", "CREATE"}'},
                 ("-simulate", "num=30000", "-depth", "40", "-seed", str(seed())))]
    runs = []
    for ov, extra in cfgs:
        sim = "-simulate" in extra
        r, stats = comp.emit_replay(v, "CallTracerScn", "CallTracer_base.cfg", "calltracer", 1500 if q else 3400, overrides=ov,
                                    invariants=INV + ["Emit"], extra=extra, workers=1 if sim else 8, replay_key="stream", replay_hint=hint)
        runs.append({"overrides": ov, "simulate": sim, "streams": r["histories"], "tracer_runs": r["runs"],
                     "streams_with_aspects": r["streamsWithAspects"], "streams_with_calls_inside_aspects": r["streamsWithCallsInsideAspects"],
                     "streams_with_several_aspects_on_one_join_point": r["streamsWithSeveralAspectsOnOneJoinPoint"],
                     "mismatching_components": r["byComp"], "tlc": stats})
        if not sim and (r["streamsWithCallsInsideAspects"] == 0 or r["streamsWithSeveralAspectsOnOneJoinPoint"] == 0):
            raise InfraError("generator too weak: no stream with calls inside an Aspect / several Aspects on one join point")
    v.notes["runs"] = runs
    v.cov["exhaustive"] = True
    v.cov["rule"] = ("every completed behaviour of CallTracer.tla within the constants is a well-nested stream of tx-start/end, start/end, enter/exit, aspect-enter/exit (call-level and transaction-level join points) "
                     "callbacks (depth <= 3, width <= 2, <= 2 (thorough 3) Aspect runs per join point, <= 2 calls inside an Aspect run, precompile and contract "
                     "targets, failing frames and Aspect runs); each is fed to the real callTracer (default, withLog, onlyTopCall) and flatCallTracer (default, "
                     "includePrecompiles, convertParityErrors, both) behind recover(); the JSON is compared with the model's tree / flat list and the "
                     "structural statement (unique prefix-closed trace addresses, subtraces = emitted children) is evaluated on the actual output; "
                     "non-trivial = more than the top frame")
    v.assumptions += ["TLC 1.8", "Aspect-issued EVM calls arrive as CaptureEnter/CaptureExit (as the property states); onlyTopCall is not judged on streams whose nested frames have Aspect runs",
                      "thorough tier adds random deeper/wider streams by tlc -simulate (not exhaustive)"]
    return v.finish()
