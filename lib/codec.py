"""C09, C12 (and the journal-opcode parts of C03, C20): spec/JournalCodec.tla vectors executed on the real opcodes 0xe0-0xe7."""
from vlib import *
import comp

INV = ["RoundTrip", "BadEncodingsRefused", "FieldWidth"]
OWN = {
    "C09": {"jc.value"},
    "C12": {"jc.invisible", "jc.fee", "jc.halt", "jc.mem"},
    "C03": {"jc.panic"},
    "C20": {"jc.work"},
}
KINDS = {
    "C09": '{"vv", "vr", "vrseq"}',
    "C12": '{"inv", "mem", "vv", "vr", "stk"}',
    "C03": '{"vv", "vr", "mem", "inv", "stk"}',
    "C20": '{"vrbig", "mem"}',
}
ALLFORKS = '{"Frontier", "Homestead", "Tangerine", "Spurious", "Byzantium", "Constantinople", "Petersburg", "Istanbul", "Berlin", "London", "Merge", "Shanghai", "Cancun"}'


def run(v, prop, tier):
    """Shared by the checks that use codec vectors; returns the harness report."""
    q = tier == "quick"
    ov = {"Kinds": KINDS[prop], "MaxStrLen": "100" if q else "300",
          "Forks": '{"Frontier", "Byzantium", "London", "Cancun"}' if q else ALLFORKS}
    r, stats = comp.emit_replay(v, "JournalCodecScn", "JournalCodec_base.cfg", "codec", 900 if q else 3000, overrides=ov,
                                invariants=INV + ["Emit"], workers=4, own_comps=OWN[prop] | {"jc.panic"},
                                replay_key="vector", replay_hint=".build/verifh codec -one <this file>")
    fees = r.get("fees") or {}
    if prop == "C12":
        vals = sorted(set(fees.values()))
        v.notes["journal_fee_observed"] = vals
        if not fees:
            raise InfraError("no fee observation: the invisibility vectors did not run")
        if len(vals) != 1 or vals[0] == 0:
            v.candidate("jc.fee", "the journal instructions do not charge one constant non-zero fee: %s" % json.dumps(fees, sort_keys=True),
                        {"fees": fees, "cmd": "bin/check C12 quick"})
    v.notes.setdefault("runs", []).append({"overrides": ov, "vectors": r["histories"], "by_kind": r.get("byKind"),
                                            "mismatching_components": r.get("byComp"), "work": r.get("work"), "tlc": stats})
    return r


def check(prop, tier):
    v = Verdict(prop, tier)
    build_harness()
    run(v, prop, tier)
    v.cov["exhaustive"] = True
    v.cov["rule"] = ("every vector of JournalCodec.tla (each initial state is one vector): VVJNAL on 4 word patterns x offsets 0..34 and 2^31..2^256-1 x widths likewise; "
                     "VRJNAL on strings of every length 0..100 (thorough 300) x 4 content patterns (leading zero bytes, all zero) x 6 slot kinds (small numbers, hashed "
                     "positions with and without a leading zero byte) plus invalid length encodings; the 4 memory-reading key-registration forms x 3 memory sizes x "
                     "pointer and length classes around the end of memory and up to 2^256-1; each of the 8 opcodes x forks x static/non-static against the same "
                     "program with pops. Every vector is executed on the real interpreter with prepared storage/memory and compared with the model's expected outcome.")
    v.assumptions += ["TLC 1.8", "keccak256(pad32(slot)) for the data area is computed by the harness (uninterpreted in the model)",
                      "reads that reach beyond existing memory may either fail or read zeros (the property fixes neither); beyond 8192 bytes they must fail"]
    return v.finish()
