"""Frame-machine family (spec/ArtelaEVM.tla): exhaustive model checking, scenario
emission and replay against the real EVM.  Serves C04 C05 C07 C08 C10 C13 (and the
frame parts of C14 C15 C18)."""
import json, os, tempfile, shutil
from vlib import *

BASE = "ArtelaEVM_base.cfg"

ALLK = '{"CALL", "CALLCODE", "DELEGATECALL", "STATICCALL"}'

# Invariants of ArtelaEVM.tla by property
INV = {
    "C04": ["TypeOK", "Atomicity", "RefusedUntouched", "FailureSeen"],
    "C05": ["TypeOK", "JPShape", "JPLifo", "RunHasPre", "PostOnce", "JPOffSilent", "JPOnlyCode", "JPFailsOnlyInjected"],
    "C07": ["TypeOK", "TreeWF", "RestClosed", "OpenChain"],
    "C08": ["TypeOK", "TreeWF", "OpenChain", "TreeRecords"],
    "C10": ["TypeOK", "ChgIdxValid", "JournalAttr"],
    "C13": ["TypeOK", "BalIdxValid", "BalanceBrackets"],
    "C14": ["TypeOK", "NoCrash", "CtxWriteAttr"],
    "C15": ["TypeOK", "TransientFresh", "TransientIsolated"],
    "C18": ["TypeOK", "EvBalanced"],
}
PROPS = {"C08": ["InputsStable"], "C10": ["JournalMonotone"], "C13": ["BalJournalMonotone"]}

# which replay components decide which property (DESIGN.md section 6, component map)
COMPS = {
    "C04": ["world.bal", "world.stor", "world.code", "world.nonce", "world.dead", "world.logs", "flags", "result.err"],
    "C05": ["jp.seq", "jp.payload"],
    "C07": ["tree.shape"],
    "C08": ["tree.content", "tree.data", "tree.shape"],
    "C10": ["jrn.chg"],
    "C13": ["jrn.bal"],
    "C14": ["ctx.write", "panic"],
    "C15": ["world.stor", "result.err", "flags"],
    "C18": ["ev.balance", "ev.seq"],
}

# Exhaustive configurations.  Each entry: overrides of ArtelaEVM_base.cfg.
# "mc" = invariants only on a larger bound; "scn" = emission + replay bound.
def cfgs(prop, tier):
    q = tier == "quick"
    if prop == "C04":
        common = {"Ops": '{"SSTORE", "LOG", "CALL", "CREATE", "SELFDESTRUCT", "STOP", "RETURN", "REVERT", "INVALID"}',
                  "CallKinds": ALLK, "Targets": '{"a", "b", "n", "p"}', "Values": "{0, 1}",
                  "FailKinds": '{"err", "oog", "rev"}', "MaxFailPos": "3", "InitProgs": '{"stop", "sstore", "revert", "nodeposit"}',
                  "TopCreates": "TRUE"}
        return dict(
            mc=[] if q else [dict(common, MaxInstr="3", MaxNodes="3")],          # 30 M states, about 4 min
            scn=[dict(common, MaxInstr="2", MaxNodes="3")] if q else
                [dict(common, MaxInstr="2", MaxNodes="3"),                       # 0.27 M scenarios x 5 forks
                 dict(common, MaxInstr="3", MaxNodes="3", FailKinds='{"err"}', MaxFailPos="2", Targets='{"a", "b", "n"}', _forks="London")],
            forks=["London"] if q else ["Byzantium", "Istanbul", "London", "Shanghai", "Cancun"])
    if prop == "C05":
        # A: firing sequence at provider level (no Aspect bound: the provider sees every firing)
        a = {"Ops": '{"CALL", "STOP", "RETURN", "REVERT", "INVALID"}', "CallKinds": '{"CALL", "DELEGATECALL"}',
             "Targets": '{"a", "b", "p", "z"}', "Values": "{0, 1}", "ArgLens": "{0, 1}", "GasModes": '{"all", "none"}',
             "FailKinds": '{"err"}', "MaxFailPos": "2", "BoundSets": "{{}}", "JPInit": "{TRUE}", "JPToggle": "TRUE",
             "MaxTop": "2", "TopTargets": '{"a", "n"}', "MaxInstr": "2", "MaxNodes": "3"}
        # B: payloads as received by real WASM Aspects bound to both contracts (about 25 ms per scenario, one thread:
        #    WASM instantiation does not scale across threads or processes in this sandbox)
        b = dict(a, BoundSets='{{"a", "b"}}', MaxTop="1", MaxInstr="1", MaxNodes="2", JPToggle="FALSE", MaxFailPos="1",
                 CallKinds='{"CALL", "DELEGATECALL"}', TopTargets='{"a"}', _workers="1")
        if q:
            return dict(mc=[], scn=[a, b], forks=["London"])
        return dict(
            mc=[],
            scn=[dict(a, JPInit="{TRUE, FALSE}", CallKinds='{"CALL", "DELEGATECALL", "STATICCALL"}'),
                 dict(a, ArgLens="{0, 33}", CallKinds='{"CALL", "CALLCODE"}', Targets='{"a", "b", "n", "p"}'),
                 dict(b, MaxFailPos="2", ArgLens="{0, 1, 33}", BoundSets='{{"b"}, {"a", "b"}}', CallKinds=ALLK),
                 dict(b, MaxInstr="2", MaxNodes="3", ArgLens="{0, 1}", CallKinds='{"CALL"}', Targets='{"a", "b"}', Values="{0}", _forks="London")],
            forks=["London", "Cancun"])
    if prop == "C07":
        common = {"Ops": '{"SSTORE", "CALL", "CREATE", "CREATE2", "SELFDESTRUCT", "STOP", "REVERT", "INVALID"}',
                  "CallKinds": ALLK, "Targets": '{"a", "b", "n", "p"}', "Values": "{0, 2}",
                  "FailKinds": '{"err", "oog"}', "MaxFailPos": "3",
                  "InitProgs": '{"stop", "revert", "big"}', "TopCreates": "TRUE", "MaxTop": "2"}
        return dict(
            mc=[dict(common, MaxInstr="2", MaxNodes="3", MaxDepth="1", MaxTop="1")] if q else [dict(common, MaxInstr="3", MaxNodes="3", MaxDepth="1", MaxTop="1")],
            scn=[dict(common, MaxInstr="2", MaxNodes="3")] if q else
                [dict(common, MaxInstr="2", MaxNodes="3"), dict(common, MaxInstr="3", MaxNodes="3", MaxTop="1", FailKinds='{"err"}', MaxFailPos="2", _forks="London")],
            forks=["London"] if q else ["Istanbul", "London", "Cancun"])   # CREATE2 exists from Constantinople on
    if prop == "C08":
        common = {"Ops": '{"CALL", "CREATE", "CREATE2", "STOP", "RETURN", "REVERT", "INVALID"}',
                  "CallKinds": '{"CALL", "DELEGATECALL"}', "Targets": '{"a", "b", "n", "p"}', "Values": "{0, 2}",
                  "ArgLens": "{1, 33}", "Overs": "{FALSE, TRUE}", "FailKinds": '{"err"}', "MaxFailPos": "1",
                  "InitProgs": '{"stop", "revert"}', "TopCreates": "TRUE"}
        return dict(
            mc=[],
            scn=[dict(common, MaxInstr="2", MaxNodes="3")] if q else
                [dict(common, MaxInstr="2", MaxNodes="3"), dict(common, MaxInstr="3", MaxNodes="3", ArgLens="{1}", MaxFailPos="0", Targets='{"a", "b", "n"}', _forks="London")],
            forks=["London"] if q else ["Istanbul", "London", "Cancun"])   # CREATE2 exists from Constantinople on
    if prop == "C10":
        common = {"Ops": '{"SSTORE", "REGKEY", "JV", "CALL", "CREATE", "STOP", "REVERT"}', "CallKinds": ALLK,
                  "Targets": '{"a", "b"}', "Values": "{0, 2}", "Slots": "{0, 1}", "SVals": "{1, 2}",
                  "FailKinds": '{"err"}', "MaxFailPos": "0", "InitProgs": '{"regjv"}', "JPInit": "{FALSE}"}
        # one frame, long: every sequence of stores and journal instructions over values {0, 1} (a value that returns to an earlier one is a new entry)
        one = dict(common, Ops='{"SSTORE", "REGKEY", "JV", "STOP"}', MaxInstr="7", MaxNodes="1", Slots="{0}", SVals="{0, 1}", Values="{0}", InitProgs='{"stop"}')
        return dict(
            mc=[],
            scn=[dict(common, MaxInstr="4", MaxNodes="2", Slots="{0}"), dict(common, MaxInstr="3", MaxNodes="3"), one,
                 # refused value calls (insufficient balance) between journal instructions, deeper in instructions, narrower alphabet
                 dict(common, MaxInstr="4", MaxNodes="3", Slots="{0}", Ops='{"REGKEY", "JV", "CALL", "STOP"}', CallKinds='{"CALL"}', SVals="{1}")] if q else
                [dict(common, MaxInstr="4", MaxNodes="2", Slots="{0}"), dict(common, MaxInstr="3", MaxNodes="3"), dict(one, MaxInstr="8"),
                 dict(common, MaxInstr="4", MaxNodes="3", Slots="{0}", SVals="{1}", Values="{0}", _forks="London"),
                 dict(common, MaxInstr="5", MaxNodes="3", Slots="{0}", Ops='{"REGKEY", "JV", "CALL", "STOP"}', CallKinds='{"CALL", "DELEGATECALL"}', SVals="{1}", _forks="London")],
            forks=["London"] if q else ["Byzantium", "London", "Cancun"])   # REVERT and STATICCALL exist from Byzantium on
    if prop == "C13":
        common = {"Ops": '{"CALL", "CREATE", "CREATE2", "SELFDESTRUCT", "STOP", "REVERT", "INVALID"}',
                  "CallKinds": ALLK, "Targets": '{"a", "b", "n", "p"}',
                  "Values": "{0, 1, 2}", "FailKinds": '{"err"}', "MaxFailPos": "1",
                  "InitProgs": '{"stop", "revert"}', "TopCreates": "TRUE", "MaxTop": "2"}
        # key registration and journal instructions between the transfers: the balance entries hang on the same per-account tree
        keys = dict(common, Ops='{"REGKEY", "JV", "SSTORE", "CALL", "STOP"}', CallKinds='{"CALL", "DELEGATECALL"}', Targets='{"a", "b"}', Values="{0, 1}",
                    Slots="{0, 1}", SVals="{1}", MaxFailPos="0", TopCreates="FALSE", MaxTop="1", MaxInstr="3", MaxNodes="3")
        return dict(
            mc=[],
            scn=[dict(common, MaxInstr="2", MaxNodes="3"), keys] if q else
                [dict(common, MaxInstr="2", MaxNodes="3"), dict(common, MaxInstr="3", MaxNodes="3", MaxTop="1", MaxFailPos="0", Targets='{"a", "b", "n"}', _forks="London"),
                 dict(keys, MaxInstr="4", MaxTop="2")],
            forks=["London"] if q else ["Istanbul", "London", "Cancun"])   # CREATE2 exists from Constantinople on
    raise InfraError("no frame config for " + prop)


# Deviation switches that must make TLC find a counterexample of the named invariant (non-vacuity)
NEGATIVE = {
    "C04": [("DevPreJPNoSettle", "Atomicity")],
    "C05": [("DevEmptyDataFails", "JPFailsOnlyInjected")],
    "C08": [("DevDataAliased", "InputsStable")],
}


def replay(v, prop, overrides, forks, timeout, every=1, simulate=0):
    opts = {k: x for k, x in overrides.items() if k.startswith("_")}
    overrides = {k: x for k, x in overrides.items() if not k.startswith("_")}
    rep = os.path.join(tempfile.mkdtemp(prefix="vrep."), "rep.json")
    try:
        rc, out, stats = run_tlc("ArtelaEVMScn", BASE, timeout, workers=1 if simulate else 8, overrides=overrides,
                                 invariants=INV[prop] + ["Emit"], properties=None if simulate else PROPS.get(prop), drop_properties=bool(simulate) or prop not in PROPS,
                                 extra=(["-simulate", "num=%d" % simulate, "-depth", "90", "-seed", str(seed())] if simulate else ()),
                                 pipe_to=[VERIFH, "scn", "-forks", ",".join(forks), "-out", rep, "-every", str(every),
                                          "-workers", opts.get("_workers", "0")])
        bad = tlc_violation(out)
        if bad:
            raise InfraError("design model violates %s with all deviation switches off (specification bug):\n%s" % (bad, out[-3000:]))
        if "Model checking completed" not in out and not simulate:
            raise InfraError("scenario emission did not complete:\n" + out[-2000:])
        if simulate and "Finished in" not in out:
            raise InfraError("TLC simulation did not run to its end:\n" + out[-2000:])
        if not os.path.exists(rep):
            raise InfraError("replayer wrote no report:\n" + out[-2000:])
        r = json.load(open(rep))
    finally:
        shutil.rmtree(os.path.dirname(rep), ignore_errors=True)
    if "config.fork" in (r.get("byComp") or {}):
        raise InfraError("replay configuration error: %s" % ((r.get("samples") or {}).get("config.fork") or [{}])[0].get("detail"))
    if r.get("parseErrors"):
        raise InfraError("replayer could not parse %d scenarios" % r["parseErrors"])
    v.add_tlc(stats)
    v.cov["traces_validated_against_impl"] += r["runs"]
    v.cov["evaluations"] += r["runs"]
    v.cov["distinct_nontrivial"] += r["nontrivial"]
    for ex in r.get("example") or []:
        if len(v.cov["samples"]) < 3:
            v.cov["samples"].append(ex)
    ops = v.notes.setdefault("ops_seen", {})
    for k, n in (r.get("opsSeen") or {}).items():
        ops[k] = ops.get(k, 0) + n
    v.notes["steps_executed"] = v.notes.get("steps_executed", 0) + r.get("steps", 0)
    v.notes["jp_firings"] = v.notes.get("jp_firings", 0) + r.get("firings", 0)
    mine = set(COMPS[prop])
    for comp, n in sorted((r.get("byComp") or {}).items()):
        samples = (r.get("samples") or {}).get(comp) or []
        if comp in mine or comp == "panic":
            for s in samples:
                v.candidate(comp, "%s (fork %s; %d scenarios affected)" % (s["detail"], s["fork"], n),
                            {"fork": s["fork"], "scenario": s["scenario"], "cmd": ".build/verifh scn -one <this file>"})
        else:
            v.drift.append("%s: %d scenarios differ from the model outside %s's projection, e.g. %s" %
                           (comp, n, prop, samples[0]["detail"] if samples else "?"))
    return r


def check(prop, tier):
    v = Verdict(prop, tier)
    build_harness()
    c = cfgs(prop, tier)
    q = tier == "quick"
    # 1. exhaustive model checking of the design (switches off): a violation here is a specification bug
    for ov in c["mc"]:
        rc, out, stats = run_tlc("ArtelaEVM", BASE, 900 if q else 3000, overrides=ov, invariants=INV[prop],
                                 properties=PROPS.get(prop), drop_properties=prop not in PROPS)
        bad = tlc_violation(out)
        if bad:
            raise InfraError("design model violates %s with all deviation switches off (specification bug):\n%s" % (bad, out[-3000:]))
        if "Model checking completed" not in out:
            raise InfraError("TLC did not complete:\n" + out[-3000:])
        v.add_tlc(stats)
        v.notes.setdefault("mc_runs", []).append({"overrides": ov, "invariants": INV[prop], "stats": stats})
    # 2. non-vacuity: the deviation switch that reproduces a known defect must violate the invariant
    neg = []
    for sw, inv in NEGATIVE.get(prop, []):
        ov = {k: x for k, x in c["scn"][-1].items() if not k.startswith("_")}; ov[sw] = "TRUE"
        isprop = inv in sum(PROPS.values(), [])
        rc, out, stats = run_tlc("ArtelaEVM", BASE, 600, overrides=ov, invariants=["TypeOK"] if isprop else ["TypeOK", inv],
                                 properties=[inv] if isprop else None, drop_properties=not isprop)
        got = tlc_violation(out)
        neg.append({"switch": sw, "expected": inv, "tlc_found": got})
        if got is None:
            raise InfraError("negative config %s did not violate %s: the invariant is vacuous" % (sw, inv))
    v.notes["negative_configs"] = neg
    # 3. model -> code: every behaviour in the replay bound is executed on the real EVM
    for ov in c["scn"]:
        forks = ov["_forks"].split(",") if "_forks" in ov else c["forks"]
        r = replay(v, prop, ov, forks, 1500 if q else 3400)
        v.notes.setdefault("scn_runs", []).append({"overrides": ov, "scenarios": r["scenarios"], "runs": r["runs"], "forks": forks,
                                                   "mismatching_components": r.get("byComp")})
    # 4. beyond the exhaustive bound: random behaviours of a larger instance of the same model (tlc -simulate), replayed likewise
    big = {k: x for k, x in c["scn"][0].items() if not k.startswith("_")}
    big.update(MaxInstr="7", MaxNodes="6", MaxTop="2")
    if "BoundSets" in big and big["BoundSets"] != "{{}}":
        big["BoundSets"] = "{{}}"
    nsim = 2000 if q else 60000
    r = replay(v, prop, big, c["forks"][:1] if q else c["forks"], 1500 if q else 3400, simulate=nsim)
    v.notes["simulated_run"] = {"overrides": big, "behaviours_requested": nsim, "scenarios_replayed": r["scenarios"], "mismatching_components": r.get("byComp")}
    # 5. code -> model on large random programs (C07, C08): the call tree dumped after each run must be the tree that the
    #    debug-tracer callbacks of that run imply (StepTrace.tla rebuilds it, including attempts refused up front)
    #    and (C05) the provider's log of join-point firings must be exactly: one pre firing right after the announcement of every
    #    message call that runs code, one post firing right before its exit is announced, nothing else
    #    and (C13) the balance journal dumped after the run must be exactly what the transfers observed by the wrapped Transfer function imply
    if prop in ("C05", "C07", "C08", "C13"):
        import steptrace
        steptrace.run(v, prop, tier)
    v.cov["exhaustive"] = True
    v.cov["rule"] = ("every complete behaviour of ArtelaEVM.tla within the stated constants (see notes.scn_runs) is compiled to byte code and "
                     "executed on the real EVM; distinct = distinct (tops, frames, failure position/kind, bound set); non-trivial = more than one "
                     "frame or an injected join-point failure; plus random behaviours of a larger instance (tlc -simulate) and, for C05/C07/C08/C13, trace validation of generated programs (notes.trace_validation)")
    v.assumptions += ["TLC 1.8", "go-ethereum v1.12.0 core/state.StateDB as the world", "the scenario compiler (harness/scn) maps model instructions to byte code faithfully",
                      "Aspect failures are injected at provider level (GetTxBondAspects error); bound Aspects are real WASM run by aspect-runtime"]
    return v.finish()
