--------------------------- MODULE ArtelaEVM ---------------------------
(***************************************************************************)
(* Frame-grain specification of artela-evm (Level A of DESIGN.md §3.1).     *)
(*                                                                         *)
(* One EVM object, one goroutine.  The sub-steps of EVM.Call / CallCode /   *)
(* DelegateCall / StaticCall / create are separate actions, in the order    *)
(* in which vm/evm.go performs them, so that every early-return path is a   *)
(* behaviour of its own and so that recorded events bind one-to-one.        *)
(* Contracts execute an abstract instruction alphabet that is chosen        *)
(* nondeterministically step by step: one TLC run ranges over all small     *)
(* programs and call trees.  The choices are remembered in the history      *)
(* variable `scn`, from which the conformance harness compiles real byte    *)
(* code; `Expect` is the projection of the final model state that the       *)
(* harness compares with the projection of the real state.                  *)
(*                                                                         *)
(* Deviation switches (constants named Dev...) describe the code as it was at the pinned      *)
(* commit; with all switches FALSE the module states what the properties    *)
(* require.                                                                 *)
(***************************************************************************)
EXTENDS Integers, Sequences, FiniteSets, TLC, SequencesExt

CONSTANTS
  MaxInstr,      \* total number of instructions executed in one behaviour
  MaxNodes,      \* total number of frames + refused call attempts
  MaxTop,        \* number of top-level invocations on the one EVM
  Ops,           \* enabled instruction tags
  CallKinds,     \* subset of {"CALL","CALLCODE","DELEGATECALL","STATICCALL"}
  Targets,       \* addresses a call instruction may name
  Values,        \* subset of 0..2
  Slots,         \* storage slots used by SSTORE/REGKEY/JV, subset of {0,1}
  SVals,         \* values stored, subset of {1,2}
  ArgLens,       \* calldata lengths, subset of {0,1,4,33}
  Overs,         \* subset of BOOLEAN: return area on top of the argument area
  InitProgs,     \* subset of {"stop","sstore","revert","invalid","big","regjv","nodeposit"}; "nodeposit": a top-level create
                 \* given so little gas that the init code runs but the code deposit cannot be paid (ErrCodeStoreOutOfGas)
  GasModes,      \* subset of {"all", "none"}: a call instruction forwards all gas (GAS) or none (0)
  FailKinds,     \* subset of {"err","oog","rev"} for the injected join-point failure
  MaxFailPos,    \* the failure is injected at firing number 1..MaxFailPos (0 = never)
  BoundSets,     \* set of sets of contracts that have a (benign) Aspect bound to both join points
  JPInit,        \* subset of BOOLEAN: join points on/off at the first top-level call
  JPToggle,      \* BOOLEAN: may the host toggle join points between top-level calls
  TopTargets,    \* targets of top-level calls
  TopCreates,    \* BOOLEAN: host may issue a top-level create
  Eip158,        \* BOOLEAN (all replayed forks have it; FALSE only in MC-only configs)
  Cancun,        \* BOOLEAN: TSTORE/TLOAD valid
  Berlin,        \* BOOLEAN: Artela precompiles present
  MaxDepth,      \* stand-in for 1024
  DevPreJPNoSettle,  \* F1: pre-join-point failure returns before the common settle block
  DevEmptyDataFails, \* F2: empty calldata makes a bound join point fail
  DevDataAliased,    \* F3: recorded calldata aliases caller memory
  DevCtxNil          \* F9: context writer reached by a non-CALL kind crashes

VARIABLES
  world,   \* [bal, stor, tstor, code, exists, nonce, logs, dead]
  frames,  \* stack (Seq) of frame records, top = last
  tree,    \* [nodes: Seq(node), cur: 0..Len(nodes)]   (0 = nil cursor)
  jrn,     \* [keys: set of <<acct,slot>>, chg: <<acct,slot>> -> idx -> Seq(val), bal: acct -> idx -> Seq(bal),
           \*  log, xlog: ghost histories of journal instructions / transfers as the PROPERTIES describe them]
  jp,      \* [on, failPos, failKind, count, fired: Seq(firing)]
  ev,      \* Seq of debug-tracer frame callbacks
  host,    \* [phase: "rest"|"busy"|"done", tops, results: Seq, writes: Seq, crashed: BOOLEAN]
  budget,  \* [instr, nodes]
  scn      \* history: [tops: Seq(top request), frames: Seq(frame descriptor)]

vars == <<world, frames, tree, jrn, jp, ev, host, budget, scn>>

---------------------------------------------------------------------------
(* Addresses *)

Creators == {"a", "b"}
Created(c, n) == c \o "#" \o ToString(n)
Created2(c, p) == c \o "~" \o p
Base == {"eoa", "a", "b", "n", "p", "pw", "z"}     \* z: a deployed contract whose code is a single STOP
AllAddr == Base \cup {Created(c, n) : c \in Creators \cup {"eoa"}, n \in 0..3}
                \cup {Created2(c, p) : c \in Creators, p \in InitProgs}
Precompiles == {"p"} \cup (IF Berlin THEN {"pw"} ELSE {})

NoInstr == [op |-> "", kind |-> "", tgt |-> "", val |-> 0, alen |-> 0, over |-> FALSE,
            slot |-> 0, child |-> 0, init |-> "", gm |-> "all"]
Instr(op) == [NoInstr EXCEPT !.op = op]

---------------------------------------------------------------------------
(* Initial state *)

World0 ==
  [ bal    |-> [x \in AllAddr |-> IF x = "eoa" THEN 5 ELSE IF x = "a" THEN 2 ELSE 0],
    stor   |-> [x \in AllAddr |-> [s \in {0, 1} |-> 0]],
    tstor  |-> [x \in AllAddr |-> 0],
    code   |-> [x \in AllAddr |-> IF x \in {"a", "b"} THEN "prog" ELSE IF x = "z" THEN "stub" ELSE "none"],
    exists |-> {"eoa", "a", "b", "z"},
    nonce  |-> [x \in AllAddr |-> IF x \in {"a", "b", "z"} THEN 1 ELSE 0],
    logs   |-> <<>>,
    dead   |-> {} ]

Init ==
  /\ world = World0
  /\ frames = <<>>
  /\ tree = [nodes |-> <<>>, cur |-> 0]
  /\ jrn = [keys |-> {}, chg |-> <<>>, bal |-> <<>>, log |-> <<>>, xlog |-> <<>>]
  /\ \E on \in JPInit, pos \in 0..MaxFailPos, k \in FailKinds, bs \in BoundSets :
       /\ (pos = 0 => k = CHOOSE x \in FailKinds : TRUE)
       /\ jp = [on |-> on, failPos |-> pos, failKind |-> k, count |-> 0, fired |-> <<>>, bound |-> bs]
  /\ ev = <<>>
  /\ host = [phase |-> "rest", tops |-> 0, results |-> <<>>, writes |-> <<>>, crashed |-> FALSE]
  /\ budget = [instr |-> MaxInstr, nodes |-> MaxNodes]
  /\ scn = [tops |-> <<>>, frames |-> <<>>]

---------------------------------------------------------------------------
(* Helpers *)

Top == frames[Len(frames)]
Depth == Cardinality({i \in 1..Len(frames) : frames[i].running})   \* evm.depth
SetTop(f) == [frames EXCEPT ![Len(frames)] = f]
Pop == SubSeq(frames, 1, Len(frames) - 1)

CurIdx == IF tree.cur = 0 THEN 1 ELSE tree.cur      \* CurrentCallIndex: 0 when nil (1-based here)

AppendCollapsed(s, v) == IF Len(s) > 0 /\ s[Len(s)] = v THEN s ELSE Append(s, v)

\* journal maps are functions with growing domains
Get(f, k, d) == IF k \in DOMAIN f THEN f[k] ELSE d
Put(f, k, v) == [x \in DOMAIN f \cup {k} |-> IF x = k THEN v ELSE f[x]]

JournalAppend(m, key, idx, v) ==
  LET per == Get(m, key, <<>>)
      lst == Get(per, idx, <<>>)
  IN Put(m, key, Put(per, idx, AppendCollapsed(lst, v)))

TreeAdd(from, to, data, value) ==
  LET n == Len(tree.nodes) + 1
      node == [from |-> from, to |-> to, data |-> data, value |-> value, parent |-> tree.cur,
               children |-> <<>>, open |-> TRUE, ret |-> "", err |-> ""]
      ns0 == Append(tree.nodes, node)
      ns1 == IF tree.cur = 0 THEN ns0
             ELSE [ns0 EXCEPT ![tree.cur].children = Append(@, n)]
  IN [nodes |-> ns1, cur |-> n]

TreeExit(ret, err) ==
  IF tree.cur = 0 THEN tree
  ELSE [nodes |-> [tree.nodes EXCEPT ![tree.cur].open = FALSE, ![tree.cur].ret = ret, ![tree.cur].err = err],
        cur |-> tree.nodes[tree.cur].parent]

Transfer(w, from, to, amt) ==
  LET b1 == [w.bal EXCEPT ![from] = @ - amt]
      b2 == [b1 EXCEPT ![to] = @ + amt]
  IN [w EXCEPT !.bal = b2, !.exists = @ \cup {from, to}]

\* balance journal around a transfer, under call index idx (tracer.go TransferWithRecord)
BalJournal(j, w0, w1, from, to, idx) ==
  LET j1 == JournalAppend(j.bal, from, idx, w0.bal[from])
      j2 == JournalAppend(j1, to, idx, w0.bal[to])
      j3 == JournalAppend(j2, from, idx, w1.bal[from])
      j4 == JournalAppend(j3, to, idx, w1.bal[to])
  IN [j EXCEPT !.bal = j4]

\* the innermost CALL/CREATE frame on the stack, as the properties speak of it (not the tracer's cursor)
InnermostNode ==
  LET S == {i \in 1..Len(frames) : frames[i].hasNode} IN
  IF S = {} THEN 0 ELSE frames[CHOOSE i \in S : \A j \in S : j <= i].node
XObs(w0, w1, from, to) == [from |-> from, to |-> to, idx |-> InnermostNode,
                           obs |-> <<w0.bal[from], w0.bal[to], w1.bal[from], w1.bal[to]>>]

NewFrame(id, kind, from, self, codeAt, value, static, alen, init) ==
  [ id |-> id, kind |-> kind, from |-> from, self |-> self, codeAt |-> codeAt, value |-> value,
    static |-> static, phase |-> "entry", node |-> 0, hasNode |-> FALSE, w0 |-> world, snapped |-> FALSE,
    announced |-> FALSE, running |-> FALSE, err |-> "", ret |-> "", flags |-> <<>>, alen |-> alen,
    init |-> init, ran |-> FALSE, over |-> FALSE, gz |-> FALSE ]   \* gz: the frame was given no gas at all

Desc(id, kind, parent, from, value, codeAt, self, alen, init) ==
  [ id |-> id, kind |-> kind, parent |-> parent, from |-> from, value |-> value, codeAt |-> codeAt, self |-> self, alen |-> alen,
    init |-> init, prog |-> <<>>, err |-> "", ret |-> "", flags |-> <<>>, done |-> FALSE ]

AddProg(instr) == [scn EXCEPT !.frames[Top.id].prog = Append(@, instr)]

\* at most one frame with empty calldata per code address (the compiled dispatcher has one block 0)
EmptyDataFree(codeAt) ==
  \A i \in 1..Len(scn.frames) : ~(scn.frames[i].codeAt = codeAt /\ scn.frames[i].alen = 0 /\ scn.frames[i].init = "")

---------------------------------------------------------------------------
(* Host actions *)

AtRest == host.phase = "rest" /\ frames = <<>>

\* Prepare(): transient storage is emptied at the start of each transaction.
Prepared(w) == [w EXCEPT !.tstor = [x \in AllAddr |-> 0]]

TopCall ==
  /\ AtRest /\ host.tops < MaxTop /\ budget.nodes > 0
  /\ \E tgt \in TopTargets, v \in Values, al \in ArgLens, tog \in (IF JPToggle /\ host.tops > 0 THEN BOOLEAN ELSE {FALSE}) :
       LET id == Len(scn.frames) + 1 IN
       /\ (al = 0 => EmptyDataFree(tgt))
       /\ world' = Prepared(world)
       /\ jp' = [jp EXCEPT !.on = IF tog THEN ~jp.on ELSE jp.on]
       /\ frames' = <<NewFrame(id, "CALL", "eoa", tgt, tgt, v, FALSE, al, "")>>
       /\ scn' = [tops |-> Append(scn.tops, [kind |-> "call", tgt |-> tgt, val |-> v, alen |-> al, jpOn |-> jp'.on, frame |-> id, init |-> ""]),
                  frames |-> Append(scn.frames, Desc(id, "CALL", 0, "eoa", v, tgt, tgt, al, ""))]
       /\ host' = [host EXCEPT !.phase = "busy", !.tops = @ + 1]
       /\ budget' = [budget EXCEPT !.nodes = @ - 1]
  /\ UNCHANGED <<tree, jrn, ev>>

TopCreate ==
  /\ TopCreates /\ AtRest /\ host.tops < MaxTop /\ budget.nodes > 0
  /\ \E v \in Values, ip \in InitProgs :
       LET id == Len(scn.frames) + 1
           addr == Created("eoa", world.nonce["eoa"]) IN
       /\ world' = Prepared(world)
       /\ frames' = <<NewFrame(id, "CREATE", "eoa", addr, addr, v, FALSE, 0, ip)>>
       /\ scn' = [tops |-> Append(scn.tops, [kind |-> "create", tgt |-> addr, val |-> v, alen |-> 0, jpOn |-> jp.on, frame |-> id, init |-> ip]),
                  frames |-> Append(scn.frames, Desc(id, "CREATE", 0, "eoa", v, addr, addr, 0, ip))]
       /\ host' = [host EXCEPT !.phase = "busy", !.tops = @ + 1]
       /\ budget' = [budget EXCEPT !.nodes = @ - 1]
  /\ UNCHANGED <<tree, jrn, jp, ev>>

Finish ==
  /\ AtRest /\ host.tops > 0
  /\ (jp.failPos # 0 => jp.count >= jp.failPos)     \* a scenario whose injected failure never fires equals the one without
  /\ host' = [host EXCEPT !.phase = "done"]
  /\ UNCHANGED <<world, frames, tree, jrn, jp, ev, budget, scn>>

---------------------------------------------------------------------------
(* EVM.Call — evm.go:238-397 *)

IsCallFrame(f) == f.kind = "CALL"
IsCreateFrame(f) == f.kind \in {"CREATE", "CREATE2"}

\* 239-245: the call-tree node is pushed before any check
CallEntry ==
  /\ frames # <<>> /\ Top.phase = "entry" /\ IsCallFrame(Top)
  /\ tree' = TreeAdd(Top.from, Top.self, [frame |-> Top.id, init |-> ""], Top.value)
  /\ frames' = SetTop([Top EXCEPT !.phase = "check", !.node = Len(tree.nodes) + 1, !.hasNode = TRUE])
  /\ UNCHANGED <<world, jrn, jp, ev, host, budget, scn>>

\* 256-263: refused up front; nothing announced, no snapshot
CallRefuse ==
  /\ frames # <<>> /\ Top.phase = "check" /\ IsCallFrame(Top)
  /\ \/ Depth > MaxDepth
     \/ (Top.value # 0 /\ world.bal[Top.from] < Top.value)
  /\ frames' = SetTop([Top EXCEPT !.phase = "exit", !.err = IF Depth > MaxDepth THEN "depth" ELSE "funds"])
  /\ UNCHANGED <<world, tree, jrn, jp, ev, host, budget, scn>>

Enter(f) == [e |-> "enter", kind |-> f.kind, from |-> f.from, to |-> f.self, top |-> (Len(frames) = 1), value |-> f.value, ok |-> TRUE, fid |-> f.id]
EnterTo(f, to) == [Enter(f) EXCEPT !.to = to]
Exit(f, err) == [e |-> "exit", kind |-> f.kind, from |-> f.from, to |-> f.self, top |-> (Len(frames) = 1), value |-> 0, ok |-> (err = ""), fid |-> f.id]

\* 264-311: snapshot, non-existent account shortcut, account creation, transfer, announcement
CallOpen ==
  /\ frames # <<>> /\ Top.phase = "check" /\ IsCallFrame(Top)
  /\ ~(Depth > MaxDepth) /\ ~(Top.value # 0 /\ world.bal[Top.from] < Top.value)
  /\ LET f == Top
         to == f.self
     IN IF to \notin world.exists /\ to \notin Precompiles /\ Eip158 /\ f.value = 0
        THEN \* 277-290: ping the tracer and return success; the snapshot stays unused
             /\ ev' = ev \o <<Enter(f), Exit(f, "")>>
             /\ frames' = SetTop([f EXCEPT !.phase = "exit", !.w0 = world, !.snapped = TRUE])
             /\ UNCHANGED <<world, jrn>>
        ELSE LET w1 == [world EXCEPT !.exists = @ \cup {to}]
                 w2 == Transfer(w1, f.from, to, f.value)
             IN /\ world' = w2
                /\ jrn' = [BalJournal(jrn, w1, w2, f.from, to, CurIdx) EXCEPT !.xlog = Append(@, XObs(w1, w2, f.from, to))]
                /\ ev' = Append(ev, Enter(f))
                /\ frames' = SetTop([f EXCEPT !.phase = "body", !.w0 = world, !.snapped = TRUE, !.announced = TRUE])
  /\ UNCHANGED <<tree, jp, host, budget, scn>>

\* 313-320: precompile or empty code
CtxWriteOK(f) == f.kind = "CALL"
CallBodyTrivial ==
  /\ frames # <<>> /\ Top.phase = "body" /\ ~IsCreateFrame(Top)
  /\ LET f == Top IN
     \/ /\ f.codeAt \in Precompiles /\ f.gz  \* the fixed fee cannot be paid
        /\ frames' = SetTop([f EXCEPT !.phase = "settle", !.err = "oog"])
        /\ UNCHANGED host
     \/ /\ f.codeAt = "p" /\ ~f.gz    \* the identity precompile hands its input back
        /\ frames' = SetTop([f EXCEPT !.phase = "settle", !.ret = IF f.alen > 0 THEN "in" ELSE ""])
        /\ UNCHANGED host
     \/ /\ f.codeAt = "pw" /\ Berlin /\ ~f.gz
        /\ IF CtxWriteOK(f)
           THEN /\ host' = [host EXCEPT !.writes = Append(@, [by |-> f.from, frame |-> f.id])]
                /\ frames' = SetTop([f EXCEPT !.phase = "settle"])
           ELSE IF DevCtxNil
                THEN /\ host' = [host EXCEPT !.crashed = TRUE]
                     /\ frames' = SetTop([f EXCEPT !.phase = "settle", !.err = "panic"])
                ELSE /\ host' = host   \* refused: the precompile reports an error
                     /\ frames' = SetTop([f EXCEPT !.phase = "settle", !.err = "refused"])
     \/ /\ f.codeAt \notin Precompiles /\ world.code[f.codeAt] = "none"
        /\ frames' = SetTop([f EXCEPT !.phase = "settle"])
        /\ UNCHANGED host
     \/ /\ f.codeAt \notin Precompiles /\ world.code[f.codeAt] = "stub"
        \* a contract created earlier in this behaviour: its code is a single STOP;
        \* it is code, so the join points of a CALL fire around it
        /\ frames' = SetTop([f EXCEPT !.phase = IF f.kind = "CALL" THEN "prejp" ELSE "settle", !.init = "stubrun"])
        /\ UNCHANGED host
  /\ UNCHANGED <<world, tree, jrn, jp, ev, budget, scn>>

HasProg(f) == f.codeAt \notin Precompiles /\ world.code[f.codeAt] = "prog"

Firing(f, point, ret, err, failed) ==
  [contract |-> f.self, point |-> point, from |-> f.from, value |-> f.value, frame |-> f.id,
   alen |-> f.alen, index |-> f.node, ret |-> ret, err |-> err, failed |-> failed, bound |-> (f.self \in jp.bound)]

\* does the firing that is about to happen fail, and how
Injected == jp.failPos # 0 /\ jp.count + 1 = jp.failPos
FiringFails(f) ==
  \/ Injected
  \/ (DevEmptyDataFails /\ f.alen = 0 /\ f.self \in jp.bound)   \* F2: nil calldata cannot be marshalled

FailErr == IF ~Injected THEN "jperr" ELSE IF jp.failKind = "oog" THEN "oog" ELSE IF jp.failKind = "rev" THEN "jprev" ELSE "jperr"

\* 322-343
PreJP ==
  /\ frames # <<>> /\ IsCallFrame(Top)
  /\ \/ (Top.phase = "body" /\ HasProg(Top))
     \/ Top.phase = "prejp"
  /\ LET f == Top IN
     IF ~jp.on
     THEN /\ frames' = SetTop([f EXCEPT !.phase = "run", !.running = TRUE, !.ran = TRUE])
          /\ UNCHANGED <<jp, world>>
     ELSE /\ jp' = [jp EXCEPT !.count = @ + 1, !.fired = Append(@, Firing(f, "pre", "", "", FiringFails(f)))]
          /\ IF FiringFails(f)
             THEN IF DevPreJPNoSettle
                  THEN \* 334-340 as pinned: plain return, snapshot not reverted
                       /\ frames' = SetTop([f EXCEPT !.phase = "exit", !.err = FailErr])
                       /\ UNCHANGED world
                  ELSE /\ frames' = SetTop([f EXCEPT !.phase = "settle", !.err = FailErr])
                       /\ UNCHANGED world
             ELSE /\ frames' = SetTop([f EXCEPT !.phase = "run", !.running = TRUE, !.ran = TRUE])
                  /\ UNCHANGED world
  /\ UNCHANGED <<tree, jrn, ev, host, budget, scn>>

\* 353-380
PostJP ==
  /\ frames # <<>> /\ Top.phase = "postjp" /\ IsCallFrame(Top)
  /\ LET f == Top IN
     IF ~jp.on
     THEN /\ frames' = SetTop([f EXCEPT !.phase = "settle"])
          /\ UNCHANGED jp
     ELSE /\ jp' = [jp EXCEPT !.count = @ + 1, !.fired = Append(@, Firing(f, "post", f.ret, f.err, FiringFails(f)))]
          /\ IF FiringFails(f)
             THEN frames' = SetTop([f EXCEPT !.phase = "settle", !.err = FailErr,
                                              !.ret = IF FailErr = "oog" THEN f.ret ELSE ""])
             ELSE frames' = SetTop([f EXCEPT !.phase = "settle"])
  /\ UNCHANGED <<world, tree, jrn, ev, host, budget, scn>>

\* 386-394 and the analogous blocks of the other kinds: revert to the frame's snapshot on any error
Settle ==
  /\ frames # <<>> /\ Top.phase = "settle"
  /\ LET f == Top IN
     /\ world' = IF f.err # "" /\ f.snapped THEN f.w0 ELSE world
     /\ frames' = SetTop([f EXCEPT !.phase = "exit"])
  /\ UNCHANGED <<tree, jrn, jp, ev, host, budget, scn>>

\* deferred: CaptureExit/End, ExitCall, pop, hand the result to the issuer
Deliver(fs, f) ==
  IF Len(fs) = 0 THEN fs
  ELSE LET p == fs[Len(fs)]
           ok == f.err = ""
       IN [fs EXCEPT ![Len(fs)] = [p EXCEPT !.flags = Append(@, IF ok THEN 1 ELSE 0)]]

FrameExit ==
  /\ frames # <<>> /\ Top.phase = "exit"
  /\ LET f == Top IN
     /\ ev' = IF f.announced THEN Append(ev, Exit(f, f.err)) ELSE ev
     /\ tree' = IF ~f.hasNode THEN tree
                ELSE LET t1 == TreeExit(f.ret, f.err)
                         aliased == /\ DevDataAliased /\ IsCallFrame(f) /\ Len(frames) > 1
                                    /\ frames[Len(frames) - 1].over /\ f.ret # "" /\ f.err \in {"", "revert"}
                     IN IF aliased THEN [t1 EXCEPT !.nodes[f.node].data = [frame |-> -1, init |-> ""]] ELSE t1
     /\ frames' = Deliver(Pop, f)
     /\ host' = IF Len(frames) = 1
                THEN [host EXCEPT !.phase = "rest", !.results = Append(@, [err |-> f.err, ret |-> f.ret, flags |-> f.flags])]
                ELSE host
     /\ scn' = [scn EXCEPT !.frames[f.id].err = f.err, !.frames[f.id].ret = f.ret,
                            !.frames[f.id].flags = f.flags, !.frames[f.id].done = TRUE]
  /\ UNCHANGED <<world, jrn, jp, budget>>

---------------------------------------------------------------------------
(* CallCode / DelegateCall / StaticCall — evm.go:406-547: no tree node, no join points *)

OtherEntry ==
  /\ frames # <<>> /\ Top.phase = "entry" /\ Top.kind \in {"CALLCODE", "DELEGATECALL", "STATICCALL"}
  /\ LET f == Top IN
     IF Depth > MaxDepth
     THEN /\ frames' = SetTop([f EXCEPT !.phase = "exit", !.err = "depth"])
          /\ UNCHANGED <<world, ev>>
     ELSE IF f.kind = "CALLCODE" /\ world.bal[f.from] < f.value
     THEN /\ frames' = SetTop([f EXCEPT !.phase = "exit", !.err = "funds"])
          /\ UNCHANGED <<world, ev>>
     ELSE LET w1 == IF f.kind = "STATICCALL" THEN [world EXCEPT !.exists = @ \cup {f.codeAt}] ELSE world IN
          /\ world' = w1
          /\ ev' = Append(ev, EnterTo(f, f.codeAt))
          /\ frames' = SetTop([f EXCEPT !.w0 = world, !.snapped = TRUE, !.announced = TRUE,
                                        !.phase = IF f.codeAt \in Precompiles \/ world.code[f.codeAt] # "prog"
                                                  THEN "body" ELSE "run",
                                        !.running = ~(f.codeAt \in Precompiles \/ world.code[f.codeAt] # "prog")])
  /\ UNCHANGED <<tree, jrn, jp, host, budget, scn>>

---------------------------------------------------------------------------
(* create — evm.go:562-659 *)

CreateEntry ==
  /\ frames # <<>> /\ Top.phase = "entry" /\ IsCreateFrame(Top)
  /\ tree' = TreeAdd(Top.from, "", [frame |-> Top.id, init |-> Top.init], Top.value)
  /\ frames' = SetTop([Top EXCEPT !.phase = "check", !.node = Len(tree.nodes) + 1, !.hasNode = TRUE])
  /\ UNCHANGED <<world, jrn, jp, ev, host, budget, scn>>

CreateRefuse ==
  /\ frames # <<>> /\ Top.phase = "check" /\ IsCreateFrame(Top)
  /\ \/ Depth > MaxDepth
     \/ world.bal[Top.from] < Top.value
  /\ frames' = SetTop([Top EXCEPT !.phase = "exit", !.err = IF Depth > MaxDepth THEN "depth" ELSE "funds"])
  /\ UNCHANGED <<world, tree, jrn, jp, ev, host, budget, scn>>

CreateOpen ==
  /\ frames # <<>> /\ Top.phase = "check" /\ IsCreateFrame(Top)
  /\ ~(Depth > MaxDepth) /\ ~(world.bal[Top.from] < Top.value)
  /\ LET f == Top
         addr == f.self
         \* 583: caller nonce bump, outside the frame's own snapshot
         w1 == [world EXCEPT !.nonce[f.from] = @ + 1, !.exists = @ \cup {f.from}]
     IN IF w1.nonce[addr] # 0 \/ w1.code[addr] # "none"
        THEN \* 590-593 collision: all gas gone, nothing announced
             /\ world' = w1
             /\ frames' = SetTop([f EXCEPT !.phase = "exit", !.err = "collision"])
             /\ UNCHANGED <<jrn, ev>>
        ELSE LET w2 == [w1 EXCEPT !.exists = @ \cup {addr}, !.nonce[addr] = IF Eip158 THEN 1 ELSE 0]
                 w3 == Transfer(w2, f.from, addr, f.value)
             IN /\ world' = w3
                /\ jrn' = [BalJournal(jrn, w2, w3, f.from, addr, CurIdx) EXCEPT !.xlog = Append(@, XObs(w2, w3, f.from, addr))]
                /\ ev' = Append(ev, Enter(f))
                /\ frames' = SetTop([f EXCEPT !.w0 = w1, !.snapped = TRUE, !.announced = TRUE,
                                              !.phase = "run", !.running = TRUE])
  /\ UNCHANGED <<tree, jp, host, budget, scn>>

\* the init program is fixed by its name; it runs as ordinary instructions below (InitStep)

---------------------------------------------------------------------------
(* Instructions of the running frame *)

Running == frames # <<>> /\ Top.phase = "run" /\ Top.init = "" /\ ~Top.gz
CanStep == Running /\ budget.instr > 0

Fail(f, e) == [f EXCEPT !.phase = IF IsCallFrame(f) THEN "postjp" ELSE "settle", !.err = e, !.ret = "", !.running = FALSE]
Halt(f, r) == [f EXCEPT !.phase = IF IsCallFrame(f) THEN "postjp" ELSE "settle", !.ret = r, !.running = FALSE]
Tick == budget' = [budget EXCEPT !.instr = @ - 1]

\* a frame that was given no gas runs out of gas at the first instruction that costs anything
\* (the compiled contracts start with a dispatcher; the one-STOP contract z is the exception, see InitStep)
GzRun ==
  /\ frames # <<>> /\ Top.phase = "run" /\ Top.init = "" /\ Top.gz
  /\ frames' = SetTop([Top EXCEPT !.phase = IF IsCallFrame(Top) THEN "postjp" ELSE "settle", !.err = "oog", !.ret = "", !.running = FALSE])
  /\ UNCHANGED <<world, tree, jrn, jp, ev, host, budget, scn>>

ISStore ==
  /\ CanStep /\ "SSTORE" \in Ops
  /\ \E s \in Slots, v \in SVals :
       /\ scn' = AddProg([Instr("SSTORE") EXCEPT !.slot = s, !.val = v])
       /\ IF Top.static
          THEN /\ frames' = SetTop(Fail(Top, "wp")) /\ UNCHANGED world
          ELSE /\ world' = [world EXCEPT !.stor[Top.self][s] = v] /\ UNCHANGED frames
  /\ Tick /\ UNCHANGED <<tree, jrn, jp, ev, host>>

ILog ==
  /\ CanStep /\ "LOG" \in Ops
  /\ scn' = AddProg(Instr("LOG"))
  /\ IF Top.static
     THEN /\ frames' = SetTop(Fail(Top, "wp")) /\ UNCHANGED world
     ELSE /\ world' = [world EXCEPT !.logs = Append(@, Top.self)] /\ UNCHANGED frames
  /\ Tick /\ UNCHANGED <<tree, jrn, jp, ev, host>>

ITStore ==
  /\ CanStep /\ "TSTORE" \in Ops
  /\ \E v \in SVals :
       /\ scn' = AddProg([Instr("TSTORE") EXCEPT !.val = v])
       /\ IF ~Cancun THEN /\ frames' = SetTop(Fail(Top, "invalid")) /\ UNCHANGED world
          ELSE IF Top.static THEN /\ frames' = SetTop(Fail(Top, "wp")) /\ UNCHANGED world
          ELSE /\ world' = [world EXCEPT !.tstor[Top.self] = v] /\ UNCHANGED frames
  /\ Tick /\ UNCHANGED <<tree, jrn, jp, ev, host>>

\* T2S: TLOAD(0) then SSTORE(slot 1): makes the transient value a state fact
IT2S ==
  /\ CanStep /\ "T2S" \in Ops
  /\ scn' = AddProg(Instr("T2S"))
  /\ IF ~Cancun THEN /\ frames' = SetTop(Fail(Top, "invalid")) /\ UNCHANGED world
     ELSE IF Top.static THEN /\ frames' = SetTop(Fail(Top, "wp")) /\ UNCHANGED world
     ELSE /\ world' = [world EXCEPT !.stor[Top.self][1] = world.tstor[Top.self]] /\ UNCHANGED frames
  /\ Tick /\ UNCHANGED <<tree, jrn, jp, ev, host>>

\* REGKEY: register the top-level key of slot s for the executing account (VSVJNAL)
IRegKey ==
  /\ CanStep /\ "REGKEY" \in Ops
  /\ \E s \in Slots :
       /\ scn' = AddProg([Instr("REGKEY") EXCEPT !.slot = s])
       /\ jrn' = [jrn EXCEPT !.keys = @ \cup {<<Top.self, s>>}]
  /\ Tick /\ UNCHANGED <<world, frames, tree, jp, ev, host>>

\* JV: journal the current value of slot s (VVJNAL).  Unregistered key: exceptional halt.
IJournal ==
  /\ CanStep /\ "JV" \in Ops
  /\ \E s \in Slots :
       /\ scn' = AddProg([Instr("JV") EXCEPT !.slot = s])
       /\ IF <<Top.self, s>> \in jrn.keys
          THEN /\ jrn' = [jrn EXCEPT !.chg = JournalAppend(@, <<Top.self, s>>, CurIdx, world.stor[Top.self][s]),
                                     !.log = Append(@, [acct |-> Top.self, slot |-> s, idx |-> InnermostNode, val |-> world.stor[Top.self][s]])]
               /\ UNCHANGED frames
          ELSE /\ frames' = SetTop(Fail(Top, "jrn")) /\ UNCHANGED jrn
  /\ Tick /\ UNCHANGED <<world, tree, jp, ev, host>>

ISelfdestruct ==
  /\ CanStep /\ "SELFDESTRUCT" \in Ops
  /\ \E b \in {"n", "eoa", Top.self} :
       /\ scn' = AddProg([Instr("SELFDESTRUCT") EXCEPT !.tgt = b])
       /\ IF Top.static
          THEN /\ frames' = SetTop(Fail(Top, "wp")) /\ UNCHANGED <<world, ev>>
          ELSE LET me == Top.self
                   amt == world.bal[me]
                   b1 == [world.bal EXCEPT ![b] = @ + amt]
                   b2 == [b1 EXCEPT ![me] = 0]
               IN /\ world' = [world EXCEPT !.bal = b2, !.exists = @ \cup {b}, !.dead = @ \cup {me}]
                  /\ ev' = ev \o <<[e |-> "enter", kind |-> "SELFDESTRUCT", from |-> me, to |-> b, top |-> FALSE, value |-> amt, ok |-> TRUE, fid |-> 0],
                                   [e |-> "exit", kind |-> "SELFDESTRUCT", from |-> me, to |-> b, top |-> FALSE, value |-> 0, ok |-> TRUE, fid |-> 0]>>
                  /\ frames' = SetTop(Halt(Top, ""))
  /\ Tick /\ UNCHANGED <<tree, jrn, jp, host>>

IHalt ==
  /\ Running
  /\ \E h \in {"STOP", "RETURN", "REVERT", "INVALID"} \cap Ops :
       /\ scn' = AddProg(Instr(h))
       /\ frames' = SetTop(CASE h = "STOP" -> Halt(Top, "")
                            [] h = "RETURN" -> Halt(Top, "ee")
                            [] h = "REVERT" -> [Fail(Top, "revert") EXCEPT !.ret = "dd"]
                            [] h = "INVALID" -> Fail(Top, "invalid"))
  /\ UNCHANGED <<world, tree, jrn, jp, ev, host, budget>>

\* a call instruction pushes a child frame; the issuer waits below it
ICall ==
  /\ CanStep /\ "CALL" \in Ops /\ budget.nodes > 0
  /\ \E k \in CallKinds, tgt \in Targets, v \in Values, al \in ArgLens, ov \in Overs, gm \in GasModes :
       LET id == Len(scn.frames) + 1
           p == Top
           self == IF k \in {"CALLCODE", "DELEGATECALL"} THEN p.self ELSE tgt
           val == IF k \in {"CALL", "CALLCODE"} THEN v ELSE IF k = "DELEGATECALL" THEN p.value ELSE 0
           child == [NewFrame(id, k, p.self, self, tgt, val, p.static \/ k = "STATICCALL", al, "") EXCEPT !.gz = (gm = "none")]
       IN /\ (k \in {"DELEGATECALL", "STATICCALL"} => v = 0)
          \* no gas forwarded: without a value stipend, and not to a contract whose (real) Aspect would need gas
          /\ (gm = "none" => (v = 0 /\ ~(jp.on /\ tgt \in jp.bound)))
          /\ (al = 0 => (tgt \in {"a", "b"} => EmptyDataFree(tgt)))
          /\ (ov => al > 0)
          /\ IF p.static /\ k = "CALL" /\ v # 0
             THEN \* opCall: write protection, the instruction itself faults; no call attempt
                  /\ frames' = SetTop(Fail(p, "wp"))
                  /\ scn' = AddProg([Instr("CALL") EXCEPT !.kind = k, !.tgt = tgt, !.val = v, !.alen = al, !.over = ov, !.child = 0, !.gm = gm])
             ELSE /\ frames' = Append(SetTop([p EXCEPT !.over = ov]), child)
                  /\ scn' = [AddProg([Instr("CALL") EXCEPT !.kind = k, !.tgt = tgt, !.val = v, !.alen = al, !.over = ov, !.child = id, !.gm = gm])
                             EXCEPT !.frames = Append(@, Desc(id, k, p.id, p.self, val, tgt, self, al, ""))]
  /\ budget' = [budget EXCEPT !.instr = @ - 1, !.nodes = @ - 1]
  /\ UNCHANGED <<world, tree, jrn, jp, ev, host>>

ICreate ==
  /\ CanStep /\ "CREATE" \in Ops /\ budget.nodes > 0 /\ Top.self \in Creators
  /\ \E k \in {"CREATE", "CREATE2"}, v \in Values, ip \in InitProgs \ {"nodeposit"} :
       LET id == Len(scn.frames) + 1
           p == Top
           addr == IF k = "CREATE" THEN Created(p.self, world.nonce[p.self]) ELSE Created2(p.self, ip)
           child == NewFrame(id, k, p.self, addr, addr, v, FALSE, 0, ip)
       IN /\ k \in Ops \cup {"CREATE"}
          /\ world.nonce[p.self] < 3
          /\ IF p.static
             THEN /\ frames' = SetTop(Fail(p, "wp"))
                  /\ scn' = AddProg([Instr("CREATE") EXCEPT !.kind = k, !.val = v, !.init = ip, !.child = 0])
             ELSE /\ frames' = Append(frames, child)
                  /\ scn' = [AddProg([Instr("CREATE") EXCEPT !.kind = k, !.val = v, !.init = ip, !.child = id])
                             EXCEPT !.frames = Append(@, Desc(id, k, p.id, p.self, v, addr, addr, 0, ip))]
  /\ budget' = [budget EXCEPT !.instr = @ - 1, !.nodes = @ - 1]
  /\ UNCHANGED <<world, tree, jrn, jp, ev, host>>

\* init programs and the one-instruction stub are fixed code: one step each
InitStep ==
  /\ frames # <<>> /\ Top.phase = "run" /\ Top.init # ""
  /\ LET f == Top
         done(ff) == [ff EXCEPT !.phase = IF IsCallFrame(ff) THEN "postjp" ELSE "settle", !.running = FALSE]
     IN CASE f.init = "stubrun" -> /\ frames' = SetTop(done(f)) /\ UNCHANGED world
          [] f.init = "stop"    -> /\ frames' = SetTop(done([f EXCEPT !.ret = "stub"])) /\ UNCHANGED world
          [] f.init = "sstore"  -> /\ world' = [world EXCEPT !.stor[f.self][0] = 1]
                                   /\ frames' = SetTop(done([f EXCEPT !.ret = "stub"]))
          [] f.init = "regjv"   -> /\ world' = [world EXCEPT !.stor[f.self][0] = 1]
                                   /\ frames' = SetTop(done([f EXCEPT !.ret = "stub"]))
          [] f.init = "revert"  -> /\ frames' = SetTop(done([f EXCEPT !.err = "revert", !.ret = "dd"])) /\ UNCHANGED world
          [] f.init = "invalid" -> /\ frames' = SetTop(done([f EXCEPT !.err = "invalid"])) /\ UNCHANGED world
          [] f.init = "nodeposit" -> /\ frames' = SetTop(done([f EXCEPT !.err = "codestore", !.ret = "rt"])) /\ UNCHANGED world
          [] f.init = "big"     -> /\ frames' = SetTop(done([f EXCEPT !.err = "codesize", !.ret = "big"])) /\ UNCHANGED world
  /\ jrn' = IF Top.init = "regjv"
            THEN [jrn EXCEPT !.keys = @ \cup {<<Top.self, 0>>},
                             !.chg = JournalAppend(@, <<Top.self, 0>>, CurIdx, 1),
                             !.log = Append(@, [acct |-> Top.self, slot |-> 0, idx |-> InnermostNode, val |-> 1])]
            ELSE jrn
  /\ UNCHANGED <<tree, jp, ev, host, budget, scn>>

\* create epilogue (evm.go:618-639): code deposit for a successful init run
CreateDeposit ==
  /\ frames # <<>> /\ Top.phase = "settle" /\ IsCreateFrame(Top) /\ Top.err = "" /\ Top.ret = "stub"
  /\ world' = [world EXCEPT !.code[Top.self] = "stub"]
  /\ frames' = SetTop([Top EXCEPT !.phase = "exit"])
  /\ UNCHANGED <<tree, jrn, jp, ev, host, budget, scn>>

SettleNotDeposit == Settle /\ ~(IsCreateFrame(Top) /\ Top.err = "" /\ Top.ret = "stub")

Next ==
  \/ TopCall \/ TopCreate \/ Finish
  \/ CallEntry \/ CallRefuse \/ CallOpen \/ CallBodyTrivial \/ PreJP \/ PostJP
  \/ SettleNotDeposit \/ CreateDeposit \/ FrameExit
  \/ OtherEntry \/ CreateEntry \/ CreateRefuse \/ CreateOpen \/ InitStep
  \/ GzRun \/ ISStore \/ ILog \/ ITStore \/ IT2S \/ IRegKey \/ IJournal \/ ISelfdestruct \/ IHalt \/ ICall \/ ICreate

Spec == Init /\ [][Next]_vars

---------------------------------------------------------------------------
(* Properties *)

Nodes == tree.nodes
NodeIdx == 1..Len(Nodes)

\* C07
TreeWF ==
  /\ \A i \in NodeIdx :
       /\ Nodes[i].parent < i
       /\ (Nodes[i].parent # 0 => \E k \in 1..Len(Nodes[Nodes[i].parent].children) : Nodes[Nodes[i].parent].children[k] = i)
       /\ \A k \in 1..Len(Nodes[i].children) :
            /\ Nodes[i].children[k] > i
            /\ Nodes[Nodes[i].children[k]].parent = i
            /\ (k > 1 => Nodes[i].children[k - 1] < Nodes[i].children[k])
  /\ tree.cur \in 0..Len(Nodes)
RestClosed == (host.phase # "busy") => (tree.cur = 0 /\ frames = <<>> /\ \A i \in NodeIdx : ~Nodes[i].open)

\* C07/C08: the open nodes are exactly the chain from the cursor to a root
OpenChain ==
  LET RECURSIVE chain(_)
      chain(i) == IF i = 0 THEN {} ELSE {i} \cup chain(Nodes[i].parent)
  IN {i \in NodeIdx : Nodes[i].open} = chain(tree.cur)

\* C08: recorded inputs never change
InputsStable ==
  [][\A i \in 1..Len(tree.nodes) :
        /\ tree'.nodes[i].from = tree.nodes[i].from /\ tree'.nodes[i].to = tree.nodes[i].to
        /\ tree'.nodes[i].data = tree.nodes[i].data /\ tree'.nodes[i].value = tree.nodes[i].value
        /\ tree'.nodes[i].parent = tree.nodes[i].parent]_vars

\* C04: when a frame exits with an error the world equals the world at its snapshot
\* (for creates: after the caller's nonce bump).
Atomicity ==
  \A i \in 1..Len(frames) :
     (frames[i].phase = "exit" /\ frames[i].err # "" /\ frames[i].snapped /\ i = Len(frames)) => world = frames[i].w0
\* C04: a refused frame never changed anything
RefusedUntouched ==
  \A i \in 1..Len(frames) :
     (i = Len(frames) /\ frames[i].phase = "exit" /\ ~frames[i].snapped /\ frames[i].err \in {"depth", "funds"})
        => world = frames[i].w0

\* C05
FiredOf(id) == SelectSeq(jp.fired, LAMBDA x : x.frame = id)
JPShape ==
  \A i \in 1..Len(scn.frames) :
     LET fs == FiredOf(i) IN
       /\ Len(fs) <= 2
       /\ (Len(fs) >= 1 => fs[1].point = "pre")
       /\ (Len(fs) = 2 => fs[2].point = "post")
\* LIFO: scanning jp.fired, a successful pre pushes its frame, a post pops exactly that frame
JPStack ==
  LET RECURSIVE scan(_, _)
      scan(i, st) ==
        IF i > Len(jp.fired) THEN st
        ELSE LET x == jp.fired[i] IN
             IF x.point = "pre" THEN scan(i + 1, IF x.failed THEN st ELSE Append(st, x.frame))
             ELSE IF Len(st) > 0 /\ st[Len(st)] = x.frame THEN scan(i + 1, SubSeq(st, 1, Len(st) - 1))
             ELSE <<-1>>
  IN scan(1, <<>>)
JPLifo == JPStack # <<-1>> /\ (host.phase # "busy" => JPStack = <<>>)
\* exactly once: code of a CALL frame runs only between its own successful pre and its post
RunHasPre ==
  (frames # <<>> /\ Top.phase = "run" /\ IsCallFrame(Top) /\ jp.on) =>
     (Len(FiredOf(Top.id)) = 1 /\ FiredOf(Top.id)[1].point = "pre" /\ ~FiredOf(Top.id)[1].failed)
PostOnce ==
  (frames # <<>> /\ Top.phase \in {"settle", "exit"} /\ IsCallFrame(Top) /\ jp.on) =>
     IF Top.ran THEN Len(FiredOf(Top.id)) = 2
     ELSE Len(FiredOf(Top.id)) \in {0, 1} /\ (Len(FiredOf(Top.id)) = 1 => FiredOf(Top.id)[1].failed)
JPOffSilent == (~jp.on /\ frames # <<>>) => \A i \in 1..Len(jp.fired) : jp.fired[i].frame # Top.id
\* no firing for precompiles, code-less accounts and non-CALL kinds
JPOnlyCode ==
  \A i \in 1..Len(jp.fired) :
     LET d == scn.frames[jp.fired[i].frame] IN d.kind = "CALL" /\ d.codeAt \notin Precompiles

\* C05: a join point fails only where the scenario injects a failure (empty calldata, any value: no exception)
JPFailsOnlyInjected == \A i \in 1..Len(jp.fired) : jp.fired[i].failed => i = jp.failPos

\* C13: balance journal entries exist only under call indices of CALL/CREATE nodes
BalIdxValid ==
  \A a \in DOMAIN jrn.bal : \A i \in DOMAIN jrn.bal[a] : i \in NodeIdx

\* C10: change journal entries are filed under existing call indices of frames executing for that account
ChgIdxValid ==
  \A k \in DOMAIN jrn.chg : \A i \in DOMAIN jrn.chg[k] : i \in NodeIdx

\* C18: the debug-tracer frame callbacks are well nested
EvBalanced ==
  LET RECURSIVE bal(_, _)
      bal(i, d) == IF i > Len(ev) THEN d
                   ELSE IF ev[i].e = "enter" THEN bal(i + 1, d + 1)
                   ELSE IF d = 0 THEN -1000 ELSE bal(i + 1, d - 1)
  IN LET open == Cardinality({i \in 1..Len(frames) : frames[i].announced})
     IN bal(1, 0) = open

\* C15: transient storage is empty at the start of each transaction
TransientFresh ==
  (host.phase = "busy" /\ Len(frames) = 1 /\ Top.phase = "entry") => \A x \in AllAddr : world.tstor[x] = 0

\* C14: a context write is attributed to the contract whose call reached the precompile
NoCrash == ~host.crashed

\* C04: the success flags a frame has seen are exactly the outcomes of its finished children, in order
ChildFlags(pid) ==
  LET ids == SetToSortSeq({j \in 1..Len(scn.frames) : scn.frames[j].parent = pid /\ scn.frames[j].done}, <)
  IN [k \in 1..Len(ids) |-> IF scn.frames[ids[k]].err = "" THEN 1 ELSE 0]
FailureSeen ==
  /\ \A i \in 1..Len(frames) : frames[i].flags = ChildFlags(frames[i].id)
  /\ \A j \in 1..Len(scn.frames) : scn.frames[j].done => scn.frames[j].flags = ChildFlags(j)

\* C08: every attempted CALL/CREATE/CREATE2 has exactly one node, carrying the inputs of the attempt
\* and, once finished, the outcome handed back to the issuer
Entered(j) == scn.frames[j].done \/ \E i \in 1..Len(frames) : frames[i].id = j /\ frames[i].hasNode
NodeFrames == {j \in 1..Len(scn.frames) : scn.frames[j].kind \in {"CALL", "CREATE", "CREATE2"} /\ Entered(j)}
NearestNodeFrame(j) ==
  LET RECURSIVE up(_)
      up(k) == IF k = 0 THEN 0
               ELSE IF scn.frames[k].kind \in {"CALL", "CREATE", "CREATE2"} THEN k ELSE up(scn.frames[k].parent)
  IN up(scn.frames[j].parent)
TreeRecords ==
  /\ Len(Nodes) = Cardinality(NodeFrames)
  /\ \A j \in NodeFrames :
       LET d == scn.frames[j]
           S == {i \in NodeIdx : Nodes[i].data.frame = j}
       IN /\ Cardinality(S) = 1
          /\ \A i \in S :
               /\ Nodes[i].from = d.from /\ Nodes[i].value = d.value
               /\ Nodes[i].to = (IF d.kind = "CALL" THEN d.self ELSE "")
               /\ Nodes[i].data.init = d.init
               /\ (Nodes[i].parent = 0) = (NearestNodeFrame(j) = 0)
               /\ (Nodes[i].parent # 0 => Nodes[Nodes[i].parent].data.frame = NearestNodeFrame(j))
               /\ (d.done => Nodes[i].ret = d.ret /\ Nodes[i].err = d.err /\ ~Nodes[i].open)
  \* program order: node indices increase with frame ids
  /\ \A i1, i2 \in NodeIdx : i1 < i2 => Nodes[i1].data.frame < Nodes[i2].data.frame

\* C10: each (account, key, call) list is the collapsed chronological sequence of the journal
\* instructions executed for that storage context while that CALL/CREATE frame was innermost
Collapse(s) ==
  LET RECURSIVE c(_, _)
      c(i, acc) == IF i > Len(s) THEN acc ELSE c(i + 1, AppendCollapsed(acc, s[i]))
  IN c(1, <<>>)
LogVals(k, i) == LET sel == SelectSeq(jrn.log, LAMBDA e : <<e.acct, e.slot>> = k /\ e.idx = i)
                 IN [n \in 1..Len(sel) |-> sel[n].val]
JournalAttr ==
  /\ \A k \in DOMAIN jrn.chg : \A i \in DOMAIN jrn.chg[k] : jrn.chg[k][i] = Collapse(LogVals(k, i)) /\ jrn.chg[k][i] # <<>>
  /\ \A n \in 1..Len(jrn.log) : LET e == jrn.log[n] IN
        /\ <<e.acct, e.slot>> \in DOMAIN jrn.chg /\ e.idx \in DOMAIN jrn.chg[<<e.acct, e.slot>>]
        /\ e.idx \in NodeIdx
\* journals only grow; world reverts never touch them
JournalMonotone ==
  [][/\ jrn.keys \subseteq jrn'.keys
     /\ \A k \in DOMAIN jrn.chg : k \in DOMAIN jrn'.chg /\ \A i \in DOMAIN jrn.chg[k] :
           i \in DOMAIN jrn'.chg[k] /\ IsPrefix(jrn.chg[k][i], jrn'.chg[k][i])]_vars

\* C13: the balance journal is exactly the collapsed sequence of the observations around each transfer
ObsOf(a, i) ==
  LET RECURSIVE walk(_, _)
      walk(n, acc) ==
        IF n > Len(jrn.xlog) THEN acc
        ELSE LET x == jrn.xlog[n]
                 a1 == IF x.idx = i /\ x.from = a THEN AppendCollapsed(acc, x.obs[1]) ELSE acc
                 a2 == IF x.idx = i /\ x.to = a THEN AppendCollapsed(a1, x.obs[2]) ELSE a1
                 a3 == IF x.idx = i /\ x.from = a THEN AppendCollapsed(a2, x.obs[3]) ELSE a2
                 a4 == IF x.idx = i /\ x.to = a THEN AppendCollapsed(a3, x.obs[4]) ELSE a3
             IN walk(n + 1, a4)
  IN walk(1, <<>>)
BalanceBrackets ==
  /\ \A a \in DOMAIN jrn.bal : \A i \in DOMAIN jrn.bal[a] : jrn.bal[a][i] = ObsOf(a, i) /\ jrn.bal[a][i] # <<>>
  /\ \A n \in 1..Len(jrn.xlog) : LET x == jrn.xlog[n] IN
        /\ x.idx \in NodeIdx
        /\ x.from \in DOMAIN jrn.bal /\ x.idx \in DOMAIN jrn.bal[x.from]
        /\ x.to \in DOMAIN jrn.bal /\ x.idx \in DOMAIN jrn.bal[x.to]
BalJournalMonotone ==
  [][\A a \in DOMAIN jrn.bal : a \in DOMAIN jrn'.bal /\ \A i \in DOMAIN jrn.bal[a] :
        i \in DOMAIN jrn'.bal[a] /\ IsPrefix(jrn.bal[a][i], jrn'.bal[a][i])]_vars

\* C14: a context write is attributed to the caller of the CALL frame that reached the precompile
CtxWriteAttr ==
  \A k \in 1..Len(host.writes) : LET w == host.writes[k] IN
     scn.frames[w.frame].kind = "CALL" /\ scn.frames[w.frame].codeAt = "pw" /\ w.by = scn.frames[w.frame].from

\* C15: transient storage changes only for the executing storage context, by a revert, or at transaction start
TransientLocal ==
  [][\A x \in AllAddr : world'.tstor[x] # world.tstor[x] =>
        \/ frames = <<>>                                        \* Prepare() at transaction start
        \/ (frames # <<>> /\ Top.phase = "settle")              \* revert to the frame's snapshot
        \/ (frames # <<>> /\ Top.phase = "run" /\ x = Top.self /\ ~Top.static /\ Cancun)]_vars

TypeOK ==
  /\ budget.instr \in 0..MaxInstr /\ budget.nodes \in 0..MaxNodes
  /\ host.phase \in {"rest", "busy", "done"}

---------------------------------------------------------------------------
(* Projection handed to the conformance harness *)

SeqToIdx0(s) == [k \in 1..Len(s) |-> s[k] - 1]

NodeOut(i) ==
  LET n == Nodes[i] IN
  [ index |-> i - 1, from |-> n.from, to |-> n.to, value |-> n.value, parent |-> n.parent - 1,
    children |-> SeqToIdx0(n.children), ret |-> n.ret, err |-> n.err,
    dframe |-> n.data.frame, dinit |-> n.data.init ]

Diff(m, m0) == [x \in {y \in DOMAIN m : m[y] # m0[y]} |-> m[x]]

Expect ==
  [ bal    |-> Diff(world.bal, World0.bal),
    stor   |-> [x \in {y \in AllAddr : world.stor[y] # World0.stor[y]} |-> <<world.stor[x][0], world.stor[x][1]>>],
    code   |-> Diff(world.code, World0.code),
    nonce  |-> Diff(world.nonce, World0.nonce),
    logs   |-> world.logs,
    dead   |-> world.dead,
    exists |-> world.exists,
    nodes  |-> [i \in NodeIdx |-> NodeOut(i)],
    cur    |-> tree.cur - 1,
    fired  |-> jp.fired,
    ev     |-> ev,
    results |-> host.results,
    writes |-> [k \in 1..Len(host.writes) |-> host.writes[k].by],
    keys   |-> jrn.keys,
    chg    |-> UNION {{[acct |-> k[1], slot |-> k[2], idx |-> i - 1, vals |-> jrn.chg[k][i]] : i \in DOMAIN jrn.chg[k]} : k \in DOMAIN jrn.chg},
    balj   |-> UNION {{[acct |-> a, idx |-> i - 1, vals |-> jrn.bal[a][i]] : i \in DOMAIN jrn.bal[a]} : a \in DOMAIN jrn.bal}
  ]
=============================================================================
