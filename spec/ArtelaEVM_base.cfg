\* Base configuration of the frame machine.  bin/check derives the per-property
\* configurations from it by overriding constants (table in lib/frame.py).
SPECIFICATION Spec
CONSTANTS
  MaxInstr = 2
  MaxNodes = 3
  MaxTop = 1
  Ops = {"SSTORE", "LOG", "CALL", "CREATE", "SELFDESTRUCT", "STOP", "RETURN", "REVERT", "INVALID"}
  CallKinds = {"CALL", "CALLCODE", "DELEGATECALL", "STATICCALL"}
  Targets = {"a", "b", "n", "p"}
  Values = {0, 1}
  Slots = {0}
  SVals = {1, 2}
  ArgLens = {1}
  Overs = {FALSE}
  InitProgs = {"stop", "revert"}
  GasModes = {"all"}
  FailKinds = {"err"}
  MaxFailPos = 3
  BoundSets = {{}}
  JPInit = {TRUE}
  JPToggle = FALSE
  TopTargets = {"a"}
  TopCreates = FALSE
  Eip158 = TRUE
  Cancun = FALSE
  Berlin = TRUE
  MaxDepth = 8
  DevPreJPNoSettle = FALSE
  DevEmptyDataFails = FALSE
  DevDataAliased = FALSE
  DevCtxNil = FALSE
INVARIANTS TypeOK TreeWF RestClosed OpenChain Atomicity RefusedUntouched JPShape JPLifo RunHasPre PostOnce JPOffSilent JPOnlyCode BalIdxValid ChgIdxValid EvBalanced TransientFresh NoCrash Emit
PROPERTIES InputsStable
CHECK_DEADLOCK FALSE
