-------------------------- MODULE CallTracerScn --------------------------
(* Every completed stream is printed as JSON for verifh calltracer.       *)
EXTENDS CallTracer, Json
Emit == done => PrintT("CT " \o ToJson(Expect))
=============================================================================
