SPECIFICATION Spec
CONSTANTS
  Accts = {"a"}
  Slots = {0, 1}
  Offs = {0, 1, 32, 256, 1002}
  Types = {"t", "u"}
  Names = {"x", "y"}
  NestIdx = {"x", ""}
  Vals = {"v", "w"}
  MaxOps = 3
  MaxCalls = 1
  AllowConflicts = TRUE
  MaxRefused = 1
  ProbeSlot = 9
  DevFirstWins = FALSE
INVARIANTS TypeOK LookupAgree ChangeVisibleBoth ChildIndicesExact NodeTypeExact Emit
PROPERTIES RefuseIdempotent NodeTypeMonotone
CHECK_DEADLOCK FALSE
