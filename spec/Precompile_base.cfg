SPECIFICATION Spec
CONSTANTS
  Kinds = {"read", "sender", "write", "attr"}
  Forks = {"Istanbul", "Berlin", "London", "Cancun"}
  AllocPerGas = 64
  AllocSlack = 131072
INVARIANTS WriteInside CanonicalAccepted Emit
CHECK_DEADLOCK FALSE
