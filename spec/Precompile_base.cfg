SPECIFICATION Spec
CONSTANTS
  Kinds = {"read", "sender", "write", "attr"}
  Forks = {"Istanbul", "Berlin", "London", "Cancun"}
INVARIANTS WriteInside CanonicalAccepted Emit
CHECK_DEADLOCK FALSE
