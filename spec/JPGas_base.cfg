SPECIFICATION Spec
CONSTANTS
  Burns = {"none", "small", "big", "inf", "trap"}
  Bodies = {"stop", "work", "revert", "invalid", "oog"}
  Gases = {"ample"}
  MaxAspects = 1
INVARIANT Emit
CHECK_DEADLOCK FALSE
