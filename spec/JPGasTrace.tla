--------------------------- MODULE JPGasTrace ---------------------------
(* Trace validation for C06: every line of the ndjson file is the projection of one recorded call through the join *)
(* points (written by `verifh jpgas`); every rule of JPGas.tla is evaluated on it.                                  *)
EXTENDS JPGas, Json

CONSTANT TraceFile
Trace == ndJsonDeserialize(TraceFile)

VARIABLES l, bad, cnt
tvars == <<l, bad, cnt, vec>>

TInit == vec = 0 /\ l = 1 /\ bad = <<>> /\ cnt = [calls |-> 0, withpre |-> 0, withpost |-> 0, aspects |-> 0, aspoog |-> 0, failed |-> 0, multi |-> 0]

Broken(t) ==
  LET rules == <<
        <<"an Aspect left more gas than it was given", RuleNoCreation(t.aen, t.aex)>>,
        <<"the next Aspect of a join point did not start with what the previous one left", RuleChain(t.aen, t.aex, t.jp)>>,
        <<"the pre join point did not start with the gas given to the call", RulePreStart(t.given, t.aen, t.jp)>>,
        <<"the callee did not start with exactly what the pre join point left", RuleCalleeStart(t.given, t.aex, t.jp, t.first)>>,
        <<"the post join point did not start with exactly what the callee left", RulePostStart(t.aen, t.jp, t.last)>>,
        <<"the caller did not get back exactly what the post join point left (or did not forfeit the gas of a failed frame, or got back more than a failing pre join point left)", RuleReturn(t.given, t.used, t.aex, t.jp, t.last, t.err, t.prefailed)>>,
        <<"a frame returned more gas than it was given", RuleBound(t.given, t.used)>>,
        <<"an Aspect ran out of gas but the call did not end as out-of-gas with nothing returned", RuleAspectOOG(t.given, t.used, t.aerr, t.err)>>,
        <<"the structure of the call (which Aspects and whether the callee ran, error class) differs from the model", t.structok>> >>
  IN {rules[i][1] : i \in {j \in 1..Len(rules) : ~rules[j][2]}}

TNext ==
  /\ l <= Len(Trace)
  /\ LET t == Trace[l] b == Broken(t) IN
     /\ bad' = IF b # {} /\ Len(bad) < 30 THEN Append(bad, [l |-> l, name |-> t.name, broken |-> b, t |-> t]) ELSE bad
     /\ cnt' = [cnt EXCEPT !.calls = @ + 1, !.withpre = @ + (IF PreIdx(t.jp) # {} THEN 1 ELSE 0), !.withpost = @ + (IF PostIdx(t.jp) # {} THEN 1 ELSE 0),
                           !.aspects = @ + Len(t.aen), !.aspoog = @ + (IF \E i \in 1..Len(t.aerr) : t.aerr[i] = "out of gas" THEN 1 ELSE 0),
                           !.failed = @ + (IF t.err # "" THEN 1 ELSE 0), !.multi = @ + (IF Len(t.aen) > 2 THEN 1 ELSE 0)]
  /\ l' = l + 1 /\ UNCHANGED vec
TSpec == TInit /\ [][TNext]_tvars
Report == (l = Len(Trace) + 1) => PrintT("JT " \o ToJson([lines |-> Len(Trace), bad |-> bad, cnt |-> cnt]))
=============================================================================
