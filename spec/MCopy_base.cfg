SPECIFICATION Spec
CONSTANTS
  MaxOff = 36
  MemSizes = {0, 32, 96}
  Kinds = {"copy", "big", "fork", "tfee", "tgas"}
  Forks = {"Berlin", "London", "Shanghai", "Cancun"}
INVARIANTS MemMove Emit
CHECK_DEADLOCK FALSE
