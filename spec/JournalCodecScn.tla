------------------------- MODULE JournalCodecScn -------------------------
EXTENDS JournalCodec, Json
Emit == PrintT("JC " \o ToJson([v |-> vec, e |-> Expect(vec)]))
=============================================================================
