------------------------- MODULE ArtelaEVMScn -------------------------
(* Scenario emission for direction 2 (model -> code): every complete       *)
(* behaviour is printed as one JSON line by an always-true invariant.      *)
EXTENDS ArtelaEVM, Json

Emit ==
  host.phase = "done" =>
    PrintT("SCN " \o ToJson([tops |-> scn.tops, frames |-> scn.frames,
                              failPos |-> jp.failPos, failKind |-> jp.failKind, bound |-> jp.bound,
                              cancun |-> Cancun, berlin |-> Berlin,
                              expect |-> Expect]))
=============================================================================
