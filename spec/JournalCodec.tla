--------------------------- MODULE JournalCodec ---------------------------
(***************************************************************************)
(* What the journal opcodes 0xe0-0xe7 must decode (C09, C12, C03, C20):    *)
(*   VVJNAL  slot, offset, width, typeId  -> the packed field of a word    *)
(*   VRJNAL  slot, typeId                 -> a Solidity bytes/string       *)
(*   the four key-registration forms that take a name/index from memory    *)
(* written as functions over 32-byte words (sequences of byte values), and *)
(* the finite vector space over which TLC enumerates them.  Every initial  *)
(* state is one vector; the harness executes the real opcode on a state    *)
(* prepared from the vector and compares with Expect.                      *)
(*                                                                         *)
(* Operand values beyond the small integers are class codes (>= 1000): the *)
(* harness maps 1001..1007 to 2^31, 2^32, 2^63, 2^64-1, 2^64, 2^255,       *)
(* 2^256-1.  All of them exceed every bound in this module.                *)
(***************************************************************************)
EXTENDS Integers, Sequences, FiniteSets, TLC

CONSTANTS Kinds,        \* subset of {"vv", "vr", "mem", "inv", "vrbig", "stk", "vrseq"}
          MaxStrLen,    \* string lengths 0..MaxStrLen
          Forks,        \* fork names for the invisibility vectors
          WorkBound,    \* bytes a flat-fee journal instruction may copy / allocate (C20)
          RunAlloc      \* bytes one harness run (environment, program, state) allocates besides that: measured about 60 KiB, allowed 256 KiB

VARIABLE vec
vars == <<vec>>

Bigs == 1001..1007
IsBig(x) == x >= 1000

---------------------------------------------------------------------------
(* words *)

Zeros(n) == [i \in 1..n |-> 0]
WordPat(p) ==
  CASE p = "inc"  -> [i \in 1..32 |-> i]
    [] p = "ff"   -> [i \in 1..32 |-> 255]
    [] p = "lead0" -> [i \in 1..32 |-> IF i <= 12 THEN 0 ELSE 100 + i]
    [] p = "alt"  -> [i \in 1..32 |-> IF i % 2 = 0 THEN 0 ELSE 128 + i]

\* Solidity packed layout: the field of `w` bytes at byte offset `off` from the low end of the word
ValidField(off, w) == ~IsBig(off) /\ ~IsBig(w) /\ off <= 31 /\ w <= 32 /\ off + w <= 32
Field(word, off, w) == SubSeq(word, 33 - off - w, 32 - off)

---------------------------------------------------------------------------
(* bytes / string in storage *)

ContentPat(p, n) ==
  CASE p = "inc"     -> [i \in 1..n |-> 1 + (i % 250)]
    [] p = "lead0"   -> [i \in 1..n |-> IF i <= 2 THEN 0 ELSE 1 + (i % 250)]
    [] p = "allzero" -> [i \in 1..n |-> 0]
    [] p = "ff"      -> [i \in 1..n |-> 255]

CeilDiv(a, b) == (a + b - 1) \div b
PadTo(s, n) == s \o Zeros(n - Len(s))
\* header word and data area as the Solidity compiler lays them out
HeaderShort(content) == PadTo(content, 31) \o <<2 * Len(content)>>
HeaderLong(len) == Zeros(30) \o <<(2 * len + 1) \div 256, (2 * len + 1) % 256>>
AreaOf(content) == [k \in 1..CeilDiv(Len(content), 32) |->
                      PadTo(SubSeq(content, 32 * (k - 1) + 1, IF 32 * k <= Len(content) THEN 32 * k ELSE Len(content)), 32)]
Flatten(area) == [i \in 1..(32 * Len(area)) |-> area[((i - 1) \div 32) + 1][((i - 1) % 32) + 1]]

\* decoding: what VRJNAL must record for a header word and the data area behind it
LongLen(header) == ((header[31] * 256 + header[32]) - 1) \div 2     \* headers in this model keep bytes 1..30 zero in long form
Decode(header, area) ==
  IF header[32] % 2 = 0
  THEN LET len == header[32] \div 2 IN
       IF len > 31 THEN [err |-> TRUE, bytes |-> <<>>] ELSE [err |-> FALSE, bytes |-> SubSeq(header, 1, len)]
  ELSE LET len == LongLen(header) IN
       IF len < 32 THEN [err |-> TRUE, bytes |-> <<>>]
       ELSE [err |-> FALSE, bytes |-> SubSeq(Flatten(area), 1, len)]

---------------------------------------------------------------------------
(* name / index argument in memory (the four key-registration forms that read memory) *)

\* memory is `msize` bytes; the length word sits at ptr, the data behind it.  Three outcomes:
\*   "exact"  the whole argument lies inside memory: the name is exactly those bytes
\*   "either" it reaches beyond memory but is small: an error, or the zero-extended bytes (the property fixes neither)
\*   "error"  it is larger than a flat fee may copy: must be refused
MemOutcome(msize, ptr, len) ==
  IF IsBig(ptr) \/ ptr + 32 > msize
  THEN "either"                      \* the length word itself is (partly) outside: nothing the program wrote can be read
  ELSE IF ~IsBig(len) /\ ptr + 32 + len <= msize THEN "exact"
  ELSE IF ~IsBig(len) /\ len <= WorkBound THEN "either"
  ELSE "error"

---------------------------------------------------------------------------
(* vector space *)

SmallOps == 0..34
VV == {[k |-> "vv", pat |-> p, off |-> o, w |-> w] :
          p \in {"inc", "ff", "lead0", "alt"}, o \in SmallOps \cup Bigs, w \in SmallOps \cup Bigs}
SlotKinds == {"s0", "s1", "s5", "s256", "hashed", "hashedlz"}
VR == {[k |-> "vr", slot |-> s, enc |-> "ok", len |-> n, cpat |-> c] :
          s \in SlotKinds, n \in 0..MaxStrLen, c \in {"inc", "lead0", "allzero", "ff"}}
      \cup {[k |-> "vr", slot |-> s, enc |-> "shortbig", len |-> n, cpat |-> "inc"] : s \in {"s0", "hashed"}, n \in {32, 33, 100, 127}}
      \cup {[k |-> "vr", slot |-> s, enc |-> "longsmall", len |-> n, cpat |-> "inc"] : s \in {"s0", "hashed"}, n \in {0, 1, 31}}
MemSizes == {64, 96, 160}
MEM == UNION {{[k |-> "mem", msize |-> m, ptr |-> p, len |-> n] :
                  p \in {0, 32, m - 64, m - 32, m - 31, m - 1, m, m + 1, m + 32} \cup Bigs,
                  n \in {0, 1, 31, 32, 33, 64, 1000, 9000, 1048576} \cup Bigs} : m \in MemSizes}
INV == {[k |-> "inv", op |-> o, fork |-> f, static |-> st] : o \in 0..7, f \in Forks, st \in BOOLEAN}
\* C20: a header that claims a huge (well-formed) long string; 1..4 = 2^10, 2^16, 2^20, 2^32 bytes
VRBIG == {[k |-> "vrbig", cls |-> c] : c \in 1..4}

\* every journal opcode at every stack height around its arity: too few operands is a stack underflow like for any instruction
Arity == <<3, 4, 6, 5, 6, 5, 4, 2>>
STK == {[k |-> "stk", op |-> o, height |-> h] : o \in 0..7, h \in 0..8}

\* several reference journals in one transaction: variable a (l1 bytes), variable b (l2 bytes), and - again - variable a after it was
\* assigned other content of l3 bytes.  Every record is the content at the moment of its instruction and stays that.
SeqLens == {0, 5, 31, 32, 40, 64, 100}
VRSEQ == {[k |-> "vrseq", l1 |-> x, l2 |-> y, l3 |-> z, again |-> g] : x \in SeqLens, y \in SeqLens, z \in SeqLens, g \in BOOLEAN}
StoredAs(c) == [header |-> (IF Len(c) <= 31 THEN HeaderShort(c) ELSE HeaderLong(Len(c))), area |-> (IF Len(c) <= 31 THEN <<>> ELSE AreaOf(c))]
Collapse2(x, y) == IF x = y THEN <<x>> ELSE <<x, y>>
SeqExpect(v) ==
  LET ca == ContentPat("inc", v.l1)  cb == ContentPat("ff", v.l2)  ca2 == ContentPat("lead0", v.l3)
  IN [a1 |-> StoredAs(ca), b1 |-> StoredAs(cb), a2 |-> StoredAs(ca2),
      reca |-> (IF v.again THEN Collapse2(ca, ca2) ELSE <<ca>>), recb |-> <<cb>>]

Vectors == (IF "vrseq" \in Kinds THEN {v \in VRSEQ : v.again \/ v.l3 = 0} ELSE {})
           \cup (IF "stk" \in Kinds THEN STK ELSE {}) \cup (IF "vv" \in Kinds THEN VV ELSE {}) \cup (IF "vr" \in Kinds THEN VR ELSE {})
           \cup (IF "mem" \in Kinds THEN MEM ELSE {}) \cup (IF "inv" \in Kinds THEN INV ELSE {})
           \cup (IF "vrbig" \in Kinds THEN VRBIG ELSE {})

Init == vec \in Vectors
Next == UNCHANGED vec
Spec == Init /\ [][Next]_vars

---------------------------------------------------------------------------
(* expected outcome of a vector *)

VRHeader(v) ==
  LET c == ContentPat(v.cpat, v.len) IN
  CASE v.enc = "ok" -> IF v.len <= 31 THEN HeaderShort(c) ELSE HeaderLong(v.len)
    [] v.enc = "shortbig" -> PadTo(ContentPat("inc", 31), 31) \o <<2 * v.len>>     \* short form whose length byte says >= 32
    [] v.enc = "longsmall" -> HeaderLong(v.len)                                     \* long form whose length is < 32
VRArea(v) == IF v.enc = "ok" /\ v.len > 31 THEN AreaOf(ContentPat(v.cpat, v.len)) ELSE <<>>

Expect(v) ==
  CASE v.k = "vv" -> IF ValidField(v.off, v.w)
                     THEN [err |-> FALSE, bytes |-> Field(WordPat(v.pat), v.off, v.w), word |-> WordPat(v.pat)]
                     ELSE [err |-> TRUE, bytes |-> <<>>, word |-> WordPat(v.pat)]
    [] v.k = "vr" -> LET d == Decode(VRHeader(v), VRArea(v)) IN
                     [err |-> d.err, bytes |-> d.bytes, header |-> VRHeader(v), area |-> VRArea(v)]
    [] v.k = "mem" -> [outcome |-> MemOutcome(v.msize, v.ptr, v.len), allocBound |-> WorkBound + RunAlloc]
    [] v.k = "inv" -> [invisible |-> TRUE]
    [] v.k = "stk" -> [underflow |-> (v.height < Arity[v.op + 1])]
    [] v.k = "vrbig" -> [bounded |-> TRUE]
    [] v.k = "vrseq" -> SeqExpect(v)

\* design sanity: the decoder inverts the compiler's layout for every length and content pattern
RoundTrip ==
  (vec.k = "vr" /\ vec.enc = "ok") =>
     LET d == Decode(VRHeader(vec), VRArea(vec)) IN ~d.err /\ d.bytes = ContentPat(vec.cpat, vec.len)
BadEncodingsRefused == (vec.k = "vr" /\ vec.enc # "ok") => Decode(VRHeader(vec), VRArea(vec)).err
FieldWidth == (vec.k = "vv" /\ ValidField(vec.off, vec.w)) => Len(Field(WordPat(vec.pat), vec.off, vec.w)) = vec.w
=============================================================================
