SPECIFICATION Spec
CONSTANTS
  Inst = {1, 2}
  MaxSteps = 2
  WantSets = {{}, {"p0"}, {"p0", "rp"}}
  Txs = {"A", "B"}
  AllowCancel = TRUE
  DevNoCopy = FALSE
  DevDirtyPool = FALSE
  DevSharedAbort = FALSE
  DevSharedCtx = FALSE
INVARIANTS TypeOK SharedImmutable Isolation Determinism CancelOnlyOwn PoolHygiene CancelStops Emit
CHECK_DEADLOCK FALSE
