SPECIFICATION Spec
CONSTANTS
  TraceFile = "trace.ndjson"
  ReadGas = 20
  Slack = 2
INVARIANT Report
CHECK_DEADLOCK FALSE
