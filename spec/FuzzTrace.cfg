SPECIFICATION Spec
CONSTANTS
  TraceFile = "trace.ndjson"
  ReadGas = 20
  Slack = 2
  MemSlack = 64
INVARIANT Report
CHECK_DEADLOCK FALSE
