SPECIFICATION Spec
CONSTANT TraceFile = "trace.ndjson"
INVARIANT Report
CHECK_DEADLOCK FALSE
