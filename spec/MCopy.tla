------------------------------ MODULE MCopy ------------------------------
(***************************************************************************)
(* EIP-5656 MCOPY and the EIP-1153 fees as functions (C15): memory is a    *)
(* sequence of bytes whose length is a multiple of 32.  Every initial      *)
(* state is one vector (initial memory size, dst, src, len); operands      *)
(* >= 1000 are class codes for 2^31 .. 2^256-1 (see JournalCodec).         *)
(***************************************************************************)
EXTENDS Integers, Sequences, FiniteSets, TLC

CONSTANTS MaxOff,     \* dst, src, len range over 0..MaxOff
          MemSizes,   \* initial memory sizes in bytes (multiples of 32)
          Kinds,      \* subset of {"copy", "big", "fork", "tfee", "tgas"}
          Forks

VARIABLE vec
vars == <<vec>>
IsBig(x) == x >= 1000
Bigs == {1001, 1003, 1004, 1005, 1007}

Pat(i) == 1 + ((7 * i) % 250)                       \* byte at 0-based address i of the prepared memory
Mem0(m) == [i \in 1..m |-> Pat(i - 1)]
Ceil32(n) == ((n + 31) \div 32) * 32
Words(n) == (n + 31) \div 32
MemCost(w) == 3 * w + (w * w) \div 512

\* the memory after MCOPY(dst, src, len) on memory mem
NewSize(m, dst, src, len) == IF len = 0 THEN m ELSE LET hi == (IF dst > src THEN dst ELSE src) + len IN IF Ceil32(hi) > m THEN Ceil32(hi) ELSE m
Expanded(mem, n) == mem \o [i \in 1..(n - Len(mem)) |-> 0]
CopyResult(mem, dst, src, len) ==
  LET e == Expanded(mem, NewSize(Len(mem), dst, src, len))
  IN [i \in 1..Len(e) |-> IF i > dst /\ i <= dst + len THEN e[src + (i - dst)] ELSE e[i]]     \* reads the memory as it was: memmove
CopyGas(m, dst, src, len) == 3 + 3 * Words(len) + (MemCost(Words(NewSize(m, dst, src, len))) - MemCost(Words(m)))

COPY == {[k |-> "copy", m |-> m, dst |-> d, src |-> s, len |-> n] : m \in MemSizes, d \in 0..MaxOff, s \in 0..MaxOff, n \in 0..MaxOff}
\* copies longer than a word, around the word boundaries, for every way the two ranges can lie to each other (disjoint, adjacent, overlapping by
\* less / exactly / more than a word in either direction): an implementation that moves the bytes in pieces must still behave as memmove
LongLens == {31, 32, 33, 63, 64, 65, 95, 96, 97, 100}
LongDeltas == {-64, -33, -32, -31, -8, -1, 0, 1, 8, 31, 32, 33, 40, 64, 100}
COPYLONG == {v \in {[k |-> "copy", m |-> m, dst |-> s + d, src |-> s, len |-> n] : m \in {0, 96, 256}, s \in {0, 8, 31, 32, 64}, d \in LongDeltas, n \in LongLens} :
               v.dst >= 0}
BIG == {[k |-> "big", m |-> 64, dst |-> d, src |-> s, len |-> n] : d \in {0, 5} \cup Bigs, s \in {0, 5} \cup Bigs, n \in {0, 1} \cup Bigs}
FORK == {[k |-> "fork", fork |-> f, op |-> o] : f \in Forks, o \in {"TLOAD", "TSTORE", "MCOPY"}}
TFEE == {[k |-> "tfee", slotc |-> s, valc |-> v, warm |-> w] : s \in {0, 1, 1007}, v \in {0, 1, 1007}, w \in BOOLEAN}
\* the fee is all an instruction needs: a frame given exactly the price of its program (plus 0 .. 3000 gas) completes and uses exactly that price
\* (no minimum amount of gas has to be left over, unlike SSTORE's 2300-gas sentry)
TGAS == {[k |-> "tgas", op |-> o, slack |-> x] : o \in {"TLOAD", "TSTORE", "MCOPY"}, x \in {0, 1, 99, 100, 2199, 2200, 2299, 2300, 2301, 3000}}
\* PUSH1 v PUSH1 k TSTORE STOP / PUSH1 k TLOAD POP STOP / PUSH1 32 PUSH1 0 PUSH1 0 MCOPY STOP (empty memory: one word of expansion)
ProgGas(o) == CASE o = "TSTORE" -> 3 + 3 + 100 [] o = "TLOAD" -> 3 + 100 + 2 [] o = "MCOPY" -> 3 + 3 + 3 + CopyGas(0, 0, 0, 32)
Vectors == (IF "tgas" \in Kinds THEN TGAS ELSE {}) \cup (IF "copy" \in Kinds THEN COPY \cup COPYLONG ELSE {}) \cup (IF "big" \in Kinds THEN BIG ELSE {})
           \cup (IF "fork" \in Kinds THEN FORK ELSE {}) \cup (IF "tfee" \in Kinds THEN TFEE ELSE {})

Init == vec \in Vectors
Next == UNCHANGED vec
Spec == Init /\ [][Next]_vars

Expect(v) ==
  CASE v.k = "copy" -> [err |-> FALSE, mem |-> CopyResult(Mem0(v.m), v.dst, v.src, v.len), gas |-> CopyGas(v.m, v.dst, v.src, v.len)]
    [] v.k = "big" -> \* zero length copies nothing and expands nothing wherever it points; anything else out of range cannot be paid for
                      IF v.len = 0 THEN [err |-> FALSE, mem |-> Mem0(v.m), gas |-> 3]
                      ELSE IF IsBig(v.dst) \/ IsBig(v.src) \/ IsBig(v.len) THEN [err |-> TRUE, mem |-> <<>>, gas |-> 0]
                      ELSE [err |-> FALSE, mem |-> CopyResult(Mem0(v.m), v.dst, v.src, v.len), gas |-> CopyGas(v.m, v.dst, v.src, v.len)]
    [] v.k = "fork" -> [valid |-> (v.fork = "Cancun")]
    [] v.k = "tfee" -> [fee |-> 100]
    [] v.k = "tgas" -> [gas |-> ProgGas(v.op)]

\* design sanity: memmove semantics, byte by byte, including overlapping ranges; nothing else changes; size covers both ranges
MemMove ==
  vec.k = "copy" =>
    LET m0 == Mem0(vec.m)
        r == CopyResult(m0, vec.dst, vec.src, vec.len)
        old(i) == IF i <= Len(m0) THEN m0[i] ELSE 0
    IN /\ \A j \in 1..vec.len : r[vec.dst + j] = old(vec.src + j)
       /\ \A i \in 1..Len(r) : (i <= vec.dst \/ i > vec.dst + vec.len) => r[i] = old(i)
       /\ Len(r) % 32 = 0 /\ Len(r) >= Len(m0)
       /\ (vec.len > 0 => Len(r) >= vec.dst + vec.len /\ Len(r) >= vec.src + vec.len)
       /\ (vec.len = 0 => Len(r) = Len(m0))
=============================================================================
