----------------------------- MODULE StepTrace -----------------------------
(***************************************************************************)
(* Trace validation of the interpreter loop (C01, C02, C18).               *)
(*                                                                         *)
(* Input: an ndjson file in which line i pairs the i-th debug-tracer       *)
(* callback of the Artela EVM (field a) with the i-th callback of          *)
(* go-ethereum v1.12.0 (field r) for the same program, fork, gas limit and *)
(* pre-state ("none" where one stream is shorter), followed by the pair of *)
(* results and the pairs of inherited-tracer outputs; "reset" lines        *)
(* separate runs.                                                          *)
(*                                                                         *)
(* Two things are decided on every line:                                   *)
(*  1. refinement: the Artela event equals the reference event, field by   *)
(*     field; a difference is recorded under the component the field       *)
(*     belongs to (stream / gas / result / tracerout) and validation goes  *)
(*     on from what was logged (re-synchronising, never blocking);         *)
(*  2. the step rules of the EVM, stated here independently of either      *)
(*     implementation: depth changes only at enter/exit, gas continuity    *)
(*     inside a frame and across a nested frame, out-of-gas exactly when   *)
(*     cost > gas, pc and stack-height progression from the opcode table,  *)
(*     constant-gas tiers, memory-expansion / copy / hash / log / exp      *)
(*     prices, forwarded gas never above what the caller had.              *)
(***************************************************************************)
EXTENDS Integers, Sequences, FiniteSets, TLC, Json, EVMOps

CONSTANT TraceFile
Trace == ndJsonDeserialize(TraceFile)

VARIABLES l,      \* next line
          viol,   \* discrepancies found so far (bounded list), each [c, l, run, what]
          nviol,  \* total count per component
          fs,     \* frame stack for the step rules: Seq of [gas, pc, stk, msize, op, cost, enterGas, self, node]
          calls,  \* the call tree as the callbacks imply it (C07, C08): Seq of expected nodes, in order of entry
          open,   \* indices of the nodes whose CALL/CREATE frame is open, innermost last
          acl,    \* EIP-2929 access list as the transaction started: [a (addresses), s ("address/slot" keys)]; what frames add lives in fs[i].wa / .ws
          rfx,    \* refund counter the steps of the run imply: [seen (the top-level frame has ended), ref, ok (every contributing step had its facts)]
          balx,   \* C13 on recorded runs: [exp, got]: balance journal (account, call index) -> values, as the observed transfers imply it / as dumped
          jpx,    \* C05 on recorded runs: [on, pos (callbacks seen in this run), exp (Seq of expected firings), i (firings compared)]
          run,    \* name of the current run
          fork,   \* fork index of the current run
          xeip,   \* the run has EIP-3860 enabled as an extra EIP (reset line: code = 3860)
          cnt     \* rule counters

vars == <<l, viol, nviol, fs, calls, open, jpx, balx, rfx, acl, run, fork, xeip, acl, cnt>>

Comps == {"stream", "gas", "result", "tracerout", "rule", "treeshape", "treecontent", "jpseq", "baljournal"}

Init ==
  /\ l = 1 /\ viol = <<>> /\ nviol = [c \in Comps |-> 0] /\ fs = <<>> /\ calls = <<>> /\ open = <<>> /\ run = "" /\ fork = 0 /\ xeip = FALSE
  /\ jpx = [on |-> FALSE, pos |-> 0, exp |-> <<>>, i |-> 0]
  /\ balx = [exp |-> <<>>, got |-> <<>>] /\ rfx = [seen |-> FALSE, ref |-> 0, ok |-> FALSE] /\ acl = [a |-> {}, s |-> {}]
  /\ cnt = [lines |-> 0, runs |-> 0, steps |-> 0, gascont |-> 0, oog |-> 0, pcrule |-> 0, stackrule |-> 0, constgas |-> 0,
            memgas |-> 0, callret |-> 0, enters |-> 0, results |-> 0, tracerouts |-> 0, nodes |-> 0, refused |-> 0, trees |-> 0, forkgas |-> 0, firings |-> 0, refunds |-> 0, xfers |-> 0, balvals |-> 0, baljournals |-> 0, refundrule |-> 0, sstorerule |-> 0, callrule |-> 0, aclrule |-> 0]

---------------------------------------------------------------------------
(* refinement: which fields belong to which component *)

StreamEq(a, r) ==
  /\ a.k = r.k /\ a.d = r.d /\ a.pc = r.pc /\ a.op = r.op /\ a.err = r.err /\ a.stk = r.stk
  /\ a.t0 = r.t0 /\ a.t1 = r.t1 /\ a.t2 = r.t2 /\ a.stkh = r.stkh /\ a.msize = r.msize /\ a.memh = r.memh /\ a.rdh = r.rdh
  /\ a.kind = r.kind /\ a.from = r.from /\ a.to = r.to /\ a.inh = r.inh /\ a.inlen = r.inlen /\ a.val = r.val
  /\ a.outh = r.outh /\ a.outlen = r.outlen /\ a.top = r.top
GasEq(a, r) == a.gasx = r.gasx /\ a.costx = r.costx /\ a.usedx = r.usedx
ResultEq(a, r) == a.k = r.k /\ a.outh = r.outh /\ a.outlen = r.outlen /\ a.err = r.err /\ a.memh = r.memh /\ a.rdh = r.rdh /\ a.to = r.to
ResultGasEq(a, r) == a.gasx = r.gasx /\ a.costx = r.costx
TracerEq(a, r) == a.k = r.k /\ a.name = r.name /\ a.outh = r.outh /\ a.outlen = r.outlen /\ a.err = r.err

What(a, r) == [a |-> [k |-> a.k, d |-> a.d, pc |-> a.pc, op |-> a.op, gas |-> a.gasx, cost |-> a.costx, used |-> a.usedx, err |-> a.err, stk |-> a.stk, t0 |-> a.t0, name |-> a.name, outh |-> a.outh],
               r |-> [k |-> r.k, d |-> r.d, pc |-> r.pc, op |-> r.op, gas |-> r.gasx, cost |-> r.costx, used |-> r.usedx, err |-> r.err, stk |-> r.stk, t0 |-> r.t0, name |-> r.name, outh |-> r.outh]]

\* component mismatches of one line, as a set of component names
LineDiffs(a, r) ==
  IF a.k = "result" \/ r.k = "result"
  THEN (IF ResultEq(a, r) THEN {} ELSE {"result"}) \cup (IF ResultGasEq(a, r) THEN {} ELSE {"gas"})
  ELSE IF a.k = "tracer" \/ r.k = "tracer"
  THEN (IF TracerEq(a, r) THEN {} ELSE {"tracerout"})
  ELSE (IF StreamEq(a, r) THEN {} ELSE {"stream"}) \cup (IF GasEq(a, r) THEN {} ELSE {"gas"})

---------------------------------------------------------------------------
(* step rules, evaluated on the Artela event *)

Words(n) == (n + 31) \div 32
MemCost(w) == 3 * w + (w * w) \div 512
Max(x, y) == IF x > y THEN x ELSE y
NewMsize(m, off, len) == IF len = 0 THEN m ELSE Max(m, Words(off + len) * 32)
ExpGas(m, m2) == MemCost(Words(m2)) - MemCost(Words(m))
Small(x) == x >= 0 /\ x < 1000000
\* number of bytes of a hex string "0x..." value
HexBytes(h) == (Len(h) - 2 + 1) \div 2

\* expected total cost of opcodes whose price is a function of the logged operands and memory size alone; -1 = not covered here
DynCost(e) ==
  LET o == e.op m == e.msize IN
  IF o = 81 /\ Small(e.i0) THEN 3 + ExpGas(m, NewMsize(m, e.i0, 32))                             \* MLOAD
  ELSE IF o = 82 /\ Small(e.i0) THEN 3 + ExpGas(m, NewMsize(m, e.i0, 32))                        \* MSTORE
  ELSE IF o = 83 /\ Small(e.i0) THEN 3 + ExpGas(m, NewMsize(m, e.i0, 1))                         \* MSTORE8
  ELSE IF o = 32 /\ Small(e.i0) /\ Small(e.i1) THEN 30 + 6 * Words(e.i1) + ExpGas(m, NewMsize(m, e.i0, e.i1))   \* KECCAK256
  ELSE IF o \in {55, 57, 62} /\ Small(e.i0) /\ Small(e.i2) THEN 3 + 3 * Words(e.i2) + ExpGas(m, NewMsize(m, e.i0, e.i2))  \* *COPY
  ELSE IF o = 160 /\ Small(e.i0) /\ Small(e.i1) THEN 375 + 8 * e.i1 + ExpGas(m, NewMsize(m, e.i0, e.i1))           \* LOG0
  ELSE IF o \in {243, 253} /\ Small(e.i0) /\ Small(e.i1) THEN ExpGas(m, NewMsize(m, e.i0, e.i1))                   \* RETURN REVERT
  ELSE IF o \in 161..164 /\ Small(e.i0) /\ Small(e.i1) THEN 375 + 375 * (o - 160) + 8 * e.i1 + ExpGas(m, NewMsize(m, e.i0, e.i1))   \* LOG1..LOG4
  \* creations: 32000 + memory for the init code + (CREATE2: hashing it) + (EIP-3860, from Shanghai on: 2 per word of init code);
  \* the gas handed to the init code is taken on top of this price
  ELSE IF o = 240 /\ Small(e.i1) /\ Small(e.i2) THEN 32000 + ExpGas(m, NewMsize(m, e.i1, e.i2)) + (IF fork >= 11 \/ xeip THEN 2 * Words(e.i2) ELSE 0)                      \* CREATE
  ELSE IF o = 245 /\ Small(e.i1) /\ Small(e.i2) THEN 32000 + 6 * Words(e.i2) + ExpGas(m, NewMsize(m, e.i1, e.i2)) + (IF fork >= 11 \/ xeip THEN 2 * Words(e.i2) ELSE 0)  \* CREATE2
  ELSE IF o = 10 /\ e.t1 # "" THEN 10 + (IF fork >= 3 THEN 50 ELSE 10) * (IF e.t1 = "0x0" THEN 0 ELSE HexBytes(e.t1))   \* EXP
  ELSE -1

\* ---- EIP-2929 access list, kept by the specification itself -----------------------------------------------------------------
\* Warm = what the transaction started with (sender, destination, precompiles, coinbase from Shanghai on, declared entries) plus what
\* the open frames have touched; a frame that fails takes its additions with it, a frame that ends without error hands them to its parent.
HasSlash(x) == \E i \in 1..Len(x) : SubSeq(x, i, i) = "/"
WarmAddr(x) == x \in acl.a \/ \E i \in 1..Len(fs) : x \in fs[i].wa
WarmSlot(k) == k \in acl.s \/ \E i \in 1..Len(fs) : k \in fs[i].ws
AddrOps == {49, 59, 60, 63, 241, 242, 244, 250, 255}      \* BALANCE EXTCODESIZE EXTCODECOPY EXTCODEHASH CALL CALLCODE DELEGATECALL STATICCALL SELFDESTRUCT
WarmFact(e) == IF e.op = 255 THEN (IF Len(e.facts) = 2 THEN e.facts[2] ELSE -1) ELSE (IF Len(e.facts) >= 1 THEN e.facts[1] ELSE -1)
SlotKey(f, e) == f.self \o "/" \o e.t0
\* the answer the implementation's gas function got from its access list must be the one this list gives
AclRule(f, e) ==
  IF fork < 8 \/ e.err # "" THEN {}
  ELSE IF e.op \in AddrOps /\ e.tgt # "" /\ WarmFact(e) >= 0 /\ WarmFact(e) # (IF WarmAddr(e.tgt) THEN 1 ELSE 0)
       THEN {"acl:the address is " \o (IF WarmAddr(e.tgt) THEN "warm" ELSE "cold") \o " by EIP-2929 but was priced as the opposite"}
  ELSE IF e.op \in {84, 85} /\ Len(e.facts) = 1 /\ e.facts[1] >= 0 /\ e.t0 # "" /\ e.facts[1] # (IF WarmSlot(SlotKey(f, e)) THEN 1 ELSE 0)
       THEN {"acl:the storage slot is " \o (IF WarmSlot(SlotKey(f, e)) THEN "warm" ELSE "cold") \o " by EIP-2929 but was priced as the opposite"}
  ELSE {}

\* ---- SSTORE: price and refund from (current, original, new value, slot warm) by fork -------------------------------------
\* legacy rule up to Byzantium and again on Petersburg; net metering EIP-1283 (Constantinople), EIP-2200 (Istanbul),
\* with cold-slot surcharge EIP-2929 (Berlin), reduced clearing refund EIP-3529 (London)
Zero(h) == h = "0x0"
SStore(cur, orig, new, warm) ==
  LET legacy == fork <= 4 \/ fork = 6
      clearRefund == IF fork >= 9 THEN 4800 ELSE 15000
      cold == IF fork >= 8 /\ warm = 0 THEN 2100 ELSE 0
      sload == IF fork >= 8 THEN 100 ELSE IF fork >= 7 THEN 800 ELSE 200     \* a store that changes nothing, or a slot already dirty
      reset == IF fork >= 8 THEN 2900 ELSE 5000
  IN IF legacy
     THEN [cost |-> IF Zero(cur) /\ ~Zero(new) THEN 20000 ELSE 5000, ref |-> IF ~Zero(cur) /\ Zero(new) THEN 15000 ELSE 0]
     ELSE IF cur = new THEN [cost |-> cold + sload, ref |-> 0]
     ELSE IF orig = cur
          THEN (IF Zero(orig) THEN [cost |-> cold + 20000, ref |-> 0]
                ELSE [cost |-> cold + reset, ref |-> IF Zero(new) THEN clearRefund ELSE 0])
          ELSE [cost |-> cold + sload,
                ref |-> (IF ~Zero(orig) THEN (IF Zero(cur) THEN 0 - clearRefund ELSE IF Zero(new) THEN clearRefund ELSE 0) ELSE 0)
                        + (IF orig = new THEN (IF Zero(orig) THEN 20000 - sload ELSE reset - sload) ELSE 0)]
SStoreKnown(e) == e.op = 85 /\ e.cur # "" /\ e.orig # "" /\ e.t1 # "" /\ Len(e.facts) = 1 /\ (fork < 8 \/ e.facts[1] >= 0)
\* refund this step adds to its frame (SSTORE as above; SELFDESTRUCT 24000 once per contract until London)
RefundDelta(e) ==
  IF SStoreKnown(e) THEN SStore(e.cur, e.orig, e.t1, e.facts[1]).ref
  ELSE IF e.op = 255 /\ Len(e.facts) = 2 THEN (IF fork <= 8 /\ e.facts[1] = 0 THEN 24000 ELSE 0)
  ELSE 0
RefundUnknown(e) == (e.op = 85 /\ ~SStoreKnown(e)) \/ (e.op = 255 /\ Len(e.facts) # 2)

\* ---- message calls: price = access + value transfer + new account + memory expansion + gas handed to the callee ------------
\* operands e.args = <<gas, address, [value,] inOffset, inSize, outOffset, outSize>>, facts = <<target warm, exists, empty, value non-zero>>
Min(x, y) == IF x < y THEN x ELSE y
CallCost(e) ==
  IF ~(e.op \in {241, 242, 244, 250}) \/ Len(e.facts) # 4 THEN -1
  ELSE LET a == e.args f == e.facts
           k == IF e.op \in {241, 242} THEN 1 ELSE 0
           ok == Len(a) = 6 + k /\ a[3 + k] >= 0 /\ a[4 + k] >= 0 /\ a[5 + k] >= 0 /\ a[6 + k] >= 0 /\ (fork < 8 \/ f[1] >= 0) /\ e.gas >= 0
       IN IF ~ok THEN -1
          ELSE LET m == e.msize
                   m2 == Max(NewMsize(m, a[3 + k], a[4 + k]), NewMsize(m, a[5 + k], a[6 + k]))
                   access == IF fork >= 8 THEN (IF f[1] = 1 THEN 100 ELSE 2600) ELSE IF fork >= 2 THEN 700 ELSE 40
                   value == IF k = 1 /\ f[4] = 1 THEN 9000 ELSE 0
                   newacct == IF e.op = 241 /\ (IF fork >= 3 THEN f[4] = 1 /\ f[3] = 1 ELSE f[2] = 0) THEN 25000 ELSE 0
                   base == access + value + newacct + ExpGas(m, m2)
                   avail == e.gas - base
                   cap == avail - (avail \div 64)
                   fwd == IF fork >= 2 THEN (IF a[1] < 0 \/ a[1] > cap THEN cap ELSE a[1]) ELSE a[1]
               IN IF avail < 0 \/ fwd < 0 THEN -1 ELSE base + fwd

SortedSeq(S) == LET RECURSIVE f(_) f(T) == IF T = {} THEN <<>> ELSE LET x == CHOOSE y \in T : \A z \in T : y <= z IN <<x>> \o f(T \ {x}) IN f(S)
\* state-access opcodes whose whole price is fixed per fork (EIP-150, EIP-1884) until EIP-2929 makes it warm/cold:
\* the set of prices the schedule allows on the fork of this run ({} = not covered)
ForkPrices(op) ==
  LET tang == fork >= 2  ist == fork >= 7  ber == fork >= 8 IN
  IF op = 84 THEN (IF ber THEN {100, 2100} ELSE IF ist THEN {800} ELSE IF tang THEN {200} ELSE {50})                    \* SLOAD
  ELSE IF op = 49 THEN (IF ber THEN {100, 2600} ELSE IF ist THEN {700} ELSE IF tang THEN {400} ELSE {20})             \* BALANCE
  ELSE IF op = 59 THEN (IF ber THEN {100, 2600} ELSE IF tang THEN {700} ELSE {20})                                    \* EXTCODESIZE
  ELSE IF op = 63 /\ fork >= 5 THEN (IF ber THEN {100, 2600} ELSE IF ist THEN {700} ELSE {400})                        \* EXTCODEHASH
  ELSE {}
Push(s, x) == Append(s, x)
Pop(s) == SubSeq(s, 1, Len(s) - 1)
TopF == fs[Len(fs)]

\* rule outcomes for a step event: a set of rule names that are violated
StepRules(e) ==
  IF fs = <<>> THEN {"depth:step outside a frame"}
  ELSE LET f == TopF
           t == OpTable[e.op]
           valid == e.op \in OpDefined /\ t.since <= fork
       IN (IF e.d # Len(fs) THEN {"depth:step depth differs from open frames"} ELSE {})
          \cup (IF f.gas >= 0 /\ e.gas >= 0 /\ e.gas # f.gas THEN {"gascont:gas before the step is not what the previous step left"} ELSE {})
          \cup (IF f.pc >= 0 /\ e.pc # f.pc THEN {"pc:unexpected program counter"} ELSE {})
          \cup (IF f.stk >= 0 /\ e.stk # f.stk THEN {"stack:unexpected stack height"} ELSE {})
          \cup (IF e.err = "" /\ e.gas >= 0 /\ e.cost >= 0 /\ e.cost > e.gas THEN {"oog:cost exceeds gas but no error"} ELSE {})
          \cup (IF e.err = "" /\ valid /\ (e.stk < t.pops \/ e.stk - t.pops + t.pushes > 1024) THEN {"stacklimit:the instruction ran although the stack has too few items for it or would exceed 1024"} ELSE {})
          \cup (IF e.err = "" /\ valid /\ t.gas >= 0 /\ e.cost >= 0 /\ e.cost # t.gas THEN {"constgas:constant-price opcode charged differently"} ELSE {})
          \cup (IF e.err = "" /\ valid /\ DynCost(e) >= 0 /\ e.cost >= 0 /\ e.cost # DynCost(e) THEN {"memgas:memory/copy/hash/log/exp price differs from the schedule"} ELSE {})
          \cup (IF e.err = "" /\ valid /\ ForkPrices(e.op) # {} /\ e.cost >= 0 /\ e.cost \notin ForkPrices(e.op) THEN {"forkgas:state-access price not in the fork's schedule"} ELSE {})
          \cup (IF e.err = "" /\ valid /\ SStoreKnown(e) /\ e.cost >= 0 /\ e.cost # SStore(e.cur, e.orig, e.t1, e.facts[1]).cost THEN {"sstoregas:SSTORE price differs from the fork's (net-)metering rule"} ELSE {})
          \cup AclRule(f, e)
          \cup (IF e.err = "" /\ valid /\ CallCost(e) >= 0 /\ e.cost >= 0 /\ e.cost # CallCost(e) THEN {"callgas:call price differs from access + value + new account + memory + forwarded gas"} ELSE {})

\* the frame record after a step that did not fail
AfterStep(f, e) ==
  LET t == OpTable[e.op]
      valid == e.op \in OpDefined /\ t.since <= fork
      jump == e.op = 86 \/ (e.op = 87 /\ e.t1 # "0x0")
      halts == e.op \in {0, 243, 253, 255} \/ ~valid
      callish == e.op \in {240, 241, 242, 244, 245, 250}
  IN [f EXCEPT !.gas = IF e.gas >= 0 /\ e.cost >= 0 /\ ~callish THEN e.gas - e.cost ELSE -1,
               !.pc = IF jump THEN (IF e.i0 >= 0 THEN e.i0 ELSE -1) ELSE e.pc + 1 + PushLen(e.op),
               !.stk = IF valid THEN e.stk - t.pops + t.pushes ELSE -1,
               !.op = e.op, !.cost = e.cost, !.pend = IF callish /\ e.gas >= 0 /\ e.cost >= 0 THEN e.gas - e.cost ELSE -1,
               !.ref = @ + RefundDelta(e), !.refok = @ /\ ~RefundUnknown(e),
               !.wa = IF fork >= 8 /\ e.op \in AddrOps /\ e.tgt # "" THEN @ \cup {e.tgt} ELSE @,
               !.ws = IF fork >= 8 /\ e.op \in {84, 85} /\ e.t0 # "" THEN @ \cup {SlotKey(f, e)} ELSE @]

---------------------------------------------------------------------------
\* journal maps: (account, call index) -> list of values, an immediately repeated value recorded once
JUpd(J, k, v) == IF k \in DOMAIN J THEN (IF J[k][Len(J[k])] = v THEN J ELSE [J EXCEPT ![k] = Append(@, v)]) ELSE J @@ (k :> <<v>>)

AddViol(cs, a, r) ==
  /\ nviol' = [c \in Comps |-> nviol[c] + (IF c \in cs THEN 1 ELSE 0)]
  \* samples are kept per set of components (at most 8 each), so that a flood of one kind cannot crowd out another
  /\ viol' = IF cs # {} /\ Len(viol) < 160 /\ Len(SelectSeq(viol, LAMBDA x : x.c = cs)) < 8
             THEN Append(viol, [c |-> cs, l |-> l, run |-> run, what |-> What(a, r)]) ELSE viol

Line ==
  /\ l <= Len(Trace)
  /\ LET a == Trace[l].a
         r == Trace[l].r
     IN CASE a.k = "reset" ->
               /\ run' = a.name /\ fork' = ForkIdx(a.kind) /\ xeip' = (a.code = 3860)
               \* (a declared storage key also declares its address: 40 hex digits before the slash)
               /\ acl' = [a |-> {IF HasSlash(a.warm[i]) THEN SubSeq(a.warm[i], 1, 40) ELSE a.warm[i] : i \in 1..Len(a.warm)},
                          s |-> {a.warm[i] : i \in {j \in 1..Len(a.warm) : HasSlash(a.warm[j])}}]
               /\ fs' = <<>> /\ calls' = <<>> /\ open' = <<>>
               /\ jpx' = [on |-> a.top = 1, pos |-> 0, exp |-> <<>>, i |-> 0]
               /\ balx' = [exp |-> <<>>, got |-> <<>>] /\ rfx' = [seen |-> FALSE, ref |-> 0, ok |-> FALSE]
               /\ cnt' = [cnt EXCEPT !.lines = @ + 1, !.runs = @ + 1]
               /\ UNCHANGED <<viol, nviol>>
          [] a.k = "enter" ->
               LET bad == IF Len(fs) > 0 /\ TopF.pend >= 0 /\ a.gas >= 0 /\ a.gas > TopF.pend + TopF.cost + 2300
                          THEN {"rule"} ELSE {}     \* a callee cannot be given more than the caller had (plus the stipend)
                   \* CALL / CREATE / CREATE2 frames have a call-tree node, filed under the innermost open such frame
                   hasNode == a.kind \in {"CALL", "CREATE", "CREATE2"}
                   self == IF a.kind \in {"CALLCODE", "DELEGATECALL"} THEN a.from ELSE a.to
                   nd == [from |-> a.from, to |-> (IF a.kind = "CALL" THEN a.to ELSE ""), inh |-> a.inh, inlen |-> a.inlen, val |-> a.val, gasx |-> a.gasx,
                          parent |-> (IF open = <<>> THEN 0 ELSE open[Len(open)]), outh |-> "", outlen |-> 0, err |-> "", leftx |-> "?", refused |-> FALSE, closed |-> FALSE, pos |-> jpx.pos + 1]
                   \* the address of a contract being created is warm from then on, whether or not the creation succeeds (added before the snapshot)
                   creates == fork >= 8 /\ a.kind \in {"CREATE", "CREATE2"}
                   fsC == IF creates /\ fs # <<>> THEN [fs EXCEPT ![Len(fs)].wa = @ \cup {a.to}] ELSE fs
               IN /\ acl' = IF creates /\ fs = <<>> THEN [acl EXCEPT !.a = @ \cup {a.to}] ELSE acl
                  /\ fs' = Push(fsC, [gas |-> a.gas, pc |-> 0, stk |-> 0, msize |-> 0, op |-> -1, cost |-> 0, pend |-> -1, enterGas |-> a.gas,
                                      self |-> self, node |-> (IF hasNode THEN Len(calls) + 1 ELSE 0),
                                      jp |-> (jpx.on /\ a.kind = "CALL" /\ a.code > 0), to |-> a.to, ref |-> 0, refok |-> TRUE, wa |-> {}, ws |-> {}])
                  /\ calls' = IF hasNode THEN Append(calls, nd) ELSE calls
                  /\ open' = IF hasNode THEN Append(open, Len(calls) + 1) ELSE open
                  \* a message call that runs code fires its pre join point exactly once, after it is announced and before its first instruction
                  /\ jpx' = [jpx EXCEPT !.pos = @ + 1,
                                         !.exp = IF jpx.on /\ a.kind = "CALL" /\ a.code > 0 THEN Append(@, [pos |-> jpx.pos + 1, to |-> a.to, point |-> "pre"]) ELSE @]
                  /\ AddViol(LineDiffs(a, r) \cup bad, a, r)
                  /\ cnt' = [cnt EXCEPT !.lines = @ + 1, !.enters = @ + 1]
                  /\ UNCHANGED <<run, fork, xeip, balx, rfx>>
          [] a.k = "exit" ->
               \* the parent gets back what the callee left: gas after the call step = gas - cost + (given - used)
               LET popped == IF fs = <<>> THEN fs ELSE Pop(fs)
                   child == IF fs = <<>> THEN [enterGas |-> -1, ref |-> 0, refok |-> FALSE, wa |-> {}, ws |-> {}] ELSE TopF
                   left == IF child.enterGas >= 0 /\ a.used >= 0 THEN child.enterGas - a.used ELSE -1
                   bad == IF left # -1 /\ left < 0 THEN {"rule"} ELSE {}      \* a frame cannot use more than it was given
                   \* CALL-family: the forwarded gas is part of the step's cost; CREATE/CREATE2: it is taken on top of the cost
                   par == IF popped = <<>> THEN popped
                          ELSE LET p == popped[Len(popped)]
                                   back == IF p.pend < 0 \/ left < 0 THEN -1
                                           ELSE IF p.op \in {240, 245} THEN p.pend - child.enterGas + left ELSE p.pend + left
                               \* refunds earned in a frame that ends without error pass to its parent; those of a failed frame are reverted with it
                               IN [popped EXCEPT ![Len(popped)].gas = back, ![Len(popped)].pend = -1,
                                                 ![Len(popped)].ref = @ + (IF a.err = "" THEN child.ref ELSE 0),
                                                 ![Len(popped)].refok = @ /\ (a.err # "" \/ child.refok),
                                                 ![Len(popped)].wa = @ \cup (IF a.err = "" THEN child.wa ELSE {}),
                                                 ![Len(popped)].ws = @ \cup (IF a.err = "" THEN child.ws ELSE {})]
                   nodeIdx == IF fs = <<>> THEN 0 ELSE TopF.node
               IN /\ fs' = par
                  /\ rfx' = IF Len(fs) = 1 THEN [seen |-> TRUE, ref |-> (IF a.err = "" THEN child.ref ELSE 0), ok |-> (a.err # "" \/ child.refok)] ELSE rfx
                  \* the node of a CALL/CREATE frame gets the outcome handed back to the issuer
                  /\ calls' = IF nodeIdx = 0 THEN calls
                              ELSE [calls EXCEPT ![nodeIdx].outh = a.outh, ![nodeIdx].outlen = a.outlen, ![nodeIdx].err = a.err,
                                                 ![nodeIdx].leftx = (IF left >= 0 THEN ToString(left) ELSE "?"), ![nodeIdx].closed = TRUE]
                  /\ open' = IF nodeIdx = 0 \/ open = <<>> THEN open ELSE Pop(open)
                  \* ... and its post join point exactly once, after its last instruction and before its exit is announced
                  /\ jpx' = [jpx EXCEPT !.pos = @ + 1,
                                         !.exp = IF fs # <<>> /\ TopF.jp THEN Append(@, [pos |-> jpx.pos, to |-> TopF.to, point |-> "post"]) ELSE @]
                  /\ AddViol(LineDiffs(a, r) \cup bad, a, r)
                  /\ cnt' = [cnt EXCEPT !.lines = @ + 1, !.callret = @ + (IF left >= 0 THEN 1 ELSE 0)]
                  /\ UNCHANGED <<run, fork, xeip, acl, balx>>
          [] a.k \in {"step", "fault"} ->
               LET rules == IF a.k = "step" THEN StepRules(a) ELSE {}
                   f2 == IF fs = <<>> THEN fs
                         ELSE IF a.k = "fault" \/ a.err # "" THEN [fs EXCEPT ![Len(fs)].gas = -1, ![Len(fs)].pc = -1, ![Len(fs)].stk = -1]
                         ELSE [fs EXCEPT ![Len(fs)] = AfterStep(TopF, a)]
                   \* a CALL / CREATE / CREATE2 instruction that neither faults nor enters a frame was refused up front (depth, balance,
                   \* nonce, collision): it still is a call attempt and has a node, closed at once, under the innermost open frame
                   refusedAttempt == /\ a.k = "step" /\ a.err = "" /\ a.op \in {240, 241, 245} /\ fs # <<>>
                                     /\ l < Len(Trace) /\ Trace[l + 1].a.k = "step" /\ Trace[l + 1].a.d = a.d
                   rn == [from |-> (IF fs = <<>> THEN "" ELSE TopF.self), to |-> "?", inh |-> "?", inlen |-> -1, val |-> "?", gasx |-> "?",
                          parent |-> (IF open = <<>> THEN 0 ELSE open[Len(open)]), outh |-> "", outlen |-> 0, err |-> "refused", leftx |-> "?", refused |-> TRUE, closed |-> TRUE, pos |-> 0]
               IN /\ fs' = f2
                  /\ calls' = IF refusedAttempt THEN Append(calls, rn) ELSE calls
                  /\ jpx' = [jpx EXCEPT !.pos = @ + 1]
                  /\ UNCHANGED open
                  /\ AddViol(LineDiffs(a, r) \cup (IF rules = {} THEN {} ELSE {"rule"}), a, [r EXCEPT !.name = IF rules = {} THEN r.name ELSE CHOOSE x \in rules : TRUE])
                  /\ cnt' = [cnt EXCEPT !.lines = @ + 1, !.steps = @ + 1,
                                        !.gascont = @ + (IF fs # <<>> /\ TopF.gas >= 0 /\ a.gas >= 0 THEN 1 ELSE 0),
                                        !.oog = @ + (IF a.err = "out of gas" THEN 1 ELSE 0),
                                        !.pcrule = @ + (IF fs # <<>> /\ TopF.pc >= 0 THEN 1 ELSE 0),
                                        !.stackrule = @ + (IF fs # <<>> /\ TopF.stk >= 0 THEN 1 ELSE 0),
                                        !.constgas = @ + (IF a.op \in OpDefined /\ OpTable[a.op].gas >= 0 /\ a.err = "" THEN 1 ELSE 0),
                                        !.memgas = @ + (IF a.err = "" /\ DynCost(a) >= 0 THEN 1 ELSE 0),
                                        !.refused = @ + (IF refusedAttempt THEN 1 ELSE 0),
                                        !.forkgas = @ + (IF a.err = "" /\ ForkPrices(a.op) # {} THEN 1 ELSE 0),
                                        !.sstorerule = @ + (IF a.k = "step" /\ a.err = "" /\ SStoreKnown(a) THEN 1 ELSE 0),
                                        !.callrule = @ + (IF a.k = "step" /\ a.err = "" /\ CallCost(a) >= 0 THEN 1 ELSE 0),
                                        !.aclrule = @ + (IF a.k = "step" /\ a.err = "" /\ fork >= 8 /\ ((a.op \in AddrOps /\ a.tgt # "" /\ WarmFact(a) >= 0) \/ (a.op \in {84, 85} /\ Len(a.facts) = 1 /\ a.facts[1] >= 0)) THEN 1 ELSE 0)]
                  /\ UNCHANGED <<run, fork, xeip, acl, balx, rfx>>
          [] a.k = "result" \/ r.k = "result" ->
               \* the refund counter at the end of the run is what the SSTORE / SELFDESTRUCT steps of frames that did not fail add up to
               \* (a.top = 1: the stream was cut; no judgement either when a contributing step lacked its facts)
               /\ LET refbad == a.k = "result" /\ a.top = 0 /\ rfx.seen /\ rfx.ok /\ a.costx # ToString(rfx.ref)
                  IN AddViol(LineDiffs(a, r) \cup (IF refbad THEN {"rule"} ELSE {}), a,
                             IF refbad THEN [r EXCEPT !.name = "refund:the refund counter is not the sum of the refunds of the steps (expected " \o ToString(rfx.ref) \o ")"] ELSE r)
               /\ fs' = <<>>
               /\ cnt' = [cnt EXCEPT !.lines = @ + 1, !.results = @ + 1,
                                     !.refunds = @ + (IF r.k = "result" /\ r.costx \notin {"", "0"} THEN 1 ELSE 0),
                                     !.refundrule = @ + (IF a.k = "result" /\ a.top = 0 /\ rfx.seen /\ rfx.ok /\ rfx.ref # 0 THEN 1 ELSE 0)]   \* runs that end with a non-zero refund counter
               /\ UNCHANGED <<run, fork, xeip, acl, calls, open, jpx, balx, rfx>>
          [] a.k = "jp" ->
               \* one firing seen by the Aspect provider: a.d = callbacks recorded before it, a.to = contract, a.name = pre/post
               LET i == jpx.i + 1
                   known == i <= Len(jpx.exp)
                   e == IF known THEN jpx.exp[i] ELSE [pos |-> -1, to |-> "", point |-> "none expected"]
                   bad == a.top = 0 /\ (~known \/ a.d # e.pos \/ a.to # e.to \/ a.name # e.point)
               IN /\ AddViol(IF bad THEN {"jpseq"} ELSE {}, a, [r EXCEPT !.d = e.pos, !.to = e.to, !.name = e.point])
                  /\ jpx' = [jpx EXCEPT !.i = i]
                  /\ cnt' = [cnt EXCEPT !.lines = @ + 1, !.firings = @ + 1]
                  /\ UNCHANGED <<fs, run, fork, xeip, acl, calls, open, balx, rfx>>
          [] a.k = "jpend" ->
               \* no expected firing may be missing (a.top = 1: the stream was cut, no judgement)
               LET bad == a.top = 0 /\ (jpx.i # Len(jpx.exp) \/ a.d # Len(jpx.exp))
               IN /\ AddViol(IF bad THEN {"jpseq"} ELSE {}, a, [r EXCEPT !.d = Len(jpx.exp), !.name = "expected number of firings"])
                  /\ cnt' = [cnt EXCEPT !.lines = @ + 1]
                  /\ UNCHANGED <<fs, run, fork, xeip, acl, calls, open, jpx, balx, rfx>>
          [] a.k = "node" ->
               \* one node of the recorded call tree (index a.d, 1-based; parent a.pc; children a.kids) against the tree the callbacks imply
               LET i == a.d
                   known == i >= 1 /\ i <= Len(calls)
                   e == IF known THEN calls[i] ELSE [from |-> "", to |-> "", inh |-> "", inlen |-> 0, val |-> "", gasx |-> "", parent |-> -1,
                                                     outh |-> "", outlen |-> 0, err |-> "", leftx |-> "", refused |-> FALSE, closed |-> FALSE, pos |-> 0]
                   kidsExp == LET S == {j \in 1..Len(calls) : calls[j].parent = i} IN SortedSeq(S)
                   shapeBad == ~known \/ a.pc # e.parent \/ a.kids # kidsExp \/ (a.pc >= i)
                   contentBad == known /\ (IF e.refused
                                           THEN a.from # e.from \/ a.err = "" \/ a.outlen # 0
                                           ELSE \/ a.from # e.from \/ a.to # e.to \/ a.inh # e.inh \/ a.inlen # e.inlen \/ a.val # e.val \/ a.gasx # e.gasx
                                                \/ (e.closed /\ (a.outh # e.outh \/ a.outlen # e.outlen \/ a.err # e.err \/ (e.leftx # "?" /\ a.usedx # e.leftx))))
               IN /\ AddViol(IF a.top = 1 THEN {} ELSE (IF shapeBad THEN {"treeshape"} ELSE {}) \cup (IF contentBad THEN {"treecontent"} ELSE {}), a,
                             [r EXCEPT !.from = e.from, !.to = e.to, !.inh = e.inh, !.outh = e.outh, !.err = e.err, !.usedx = e.leftx, !.gasx = e.gasx, !.pc = e.parent, !.name = "expected from the callbacks"])
                  /\ cnt' = [cnt EXCEPT !.lines = @ + 1, !.nodes = @ + 1]
                  /\ UNCHANGED <<fs, run, fork, xeip, acl, calls, open, jpx, balx, rfx>>
          [] a.k = "tree" ->
               \* the whole tree: as many nodes as call attempts, cursor at rest, nothing beyond the last index (a.top = 1: the stream was cut, no judgement)
               LET bad == a.top = 0 /\ (a.d # Len(calls) \/ a.pc # 0 \/ a.stk # 0)
               IN /\ AddViol(IF bad THEN {"treeshape"} ELSE {}, a, [r EXCEPT !.d = Len(calls), !.name = "expected node count, cursor nil, nothing beyond"])
                  /\ cnt' = [cnt EXCEPT !.lines = @ + 1, !.trees = @ + 1]
                  /\ UNCHANGED <<fs, run, fork, xeip, acl, calls, open, jpx, balx, rfx>>
          [] a.k = "xfer" ->
               \* one observed value transfer (a.d = callbacks recorded before it; real balances of sender / recipient before: t0 t1, after: t2 gasx).
               \* The transfer is the last thing before the frame is announced, so it belongs to the node whose enter callback is number a.d + 1;
               \* the journal of that call gets sender-before, recipient-before, sender-after, recipient-after, immediate repeats collapsed.
               LET S == {i \in 1..Len(calls) : calls[i].pos = a.d + 1}
                   i == IF S = {} THEN 0 ELSE CHOOSE x \in S : TRUE
                   e1 == JUpd(balx.exp, <<a.from, i>>, a.t0)
                   e2 == JUpd(e1, <<a.to, i>>, a.t1)
                   e3 == JUpd(e2, <<a.from, i>>, a.t2)
                   e4 == JUpd(e3, <<a.to, i>>, a.gasx)
               IN /\ balx' = [balx EXCEPT !.exp = e4]
                  /\ AddViol(IF a.top = 0 /\ i = 0 THEN {"baljournal"} ELSE {}, a, [r EXCEPT !.name = "a transfer that no CALL/CREATE frame entry follows"])
                  /\ cnt' = [cnt EXCEPT !.lines = @ + 1, !.xfers = @ + 1]
                  /\ UNCHANGED <<fs, run, fork, xeip, acl, calls, open, jpx, rfx>>
          [] a.k = "balv" ->
               \* one value of the dumped balance journal: account a.to, call index a.d (1-based), position a.pc in its list
               LET k == <<a.to, a.d>>
                   have == IF k \in DOMAIN balx.got THEN balx.got[k] ELSE <<>>
               IN /\ balx' = [balx EXCEPT !.got = IF k \in DOMAIN @ THEN [@ EXCEPT ![k] = Append(@, a.val)] ELSE @ @@ (k :> <<a.val>>)]
                  /\ AddViol(IF a.top = 0 /\ a.pc # Len(have) + 1 THEN {"baljournal"} ELSE {}, a, [r EXCEPT !.name = "dump out of order"])
                  /\ cnt' = [cnt EXCEPT !.lines = @ + 1, !.balvals = @ + 1]
                  /\ UNCHANGED <<fs, run, fork, xeip, acl, calls, open, jpx, rfx>>
          [] a.k = "balend" ->
               \* C13: the journal is exactly what the observed transfers imply - nothing missing, nothing more, every list in order
               LET bad == a.top = 0 /\ balx.got # balx.exp
                   K == (DOMAIN balx.got) \cup (DOMAIN balx.exp)
                   D == {k \in K : k \notin DOMAIN balx.got \/ k \notin DOMAIN balx.exp \/ balx.got[k] # balx.exp[k]}
                   k1 == IF D = {} THEN <<"", 0>> ELSE CHOOSE k \in D : TRUE
               IN /\ AddViol(IF bad THEN {"baljournal"} ELSE {}, a,
                             [r EXCEPT !.to = k1[1], !.d = k1[2],
                                       !.name = "expected journal of this account and call: " \o (IF k1 \in DOMAIN balx.exp THEN ToString(balx.exp[k1]) ELSE "none")
                                                \o ", recorded: " \o (IF k1 \in DOMAIN balx.got THEN ToString(balx.got[k1]) ELSE "none")])
                  /\ cnt' = [cnt EXCEPT !.lines = @ + 1, !.baljournals = @ + (IF a.top = 0 /\ DOMAIN balx.exp # {} THEN 1 ELSE 0)]
                  /\ UNCHANGED <<fs, run, fork, xeip, acl, calls, open, jpx, balx, rfx>>
          [] OTHER ->     \* tracer outputs, or "none" on the Artela side (the reference stream is longer)
               /\ AddViol(LineDiffs(a, r), a, r)
               /\ cnt' = [cnt EXCEPT !.lines = @ + 1, !.tracerouts = @ + (IF a.k = "tracer" THEN 1 ELSE 0)]
               /\ UNCHANGED <<fs, run, fork, xeip, acl, calls, open, jpx, balx, rfx>>
  /\ l' = l + 1

Next == Line
Spec == Init /\ [][Next]_vars

\* printed once, when the whole trace has been consumed; the orchestrator turns it into the verdict
Report == (l = Len(Trace) + 1) => PrintT("ST " \o ToJson([lines |-> Len(Trace), nviol |-> nviol, viol |-> viol, cnt |-> cnt]))
=============================================================================
