----------------------------- MODULE KeyTree -----------------------------
(***************************************************************************)
(* The key tree / flat index / change lists of vm/tracer.go (StateChanges,  *)
(* StorageKey.AddChild, addKey, findKey, saveKey, saveChange) driven through *)
(* the exported Tracer API, together with a ghost record `reg` / `exp` of    *)
(* what was registered and journaled in the words of property C11.           *)
(*                                                                           *)
(* Implementation-shaped part: key objects `keys`, per parent the two maps   *)
(* children[slot][off] (`kchild`) and childrenIndex[name] (`kname`), the     *)
(* flat index[acct][slot][off][type] (`index`), roots, change lists.         *)
(* DevFirstWins = TRUE models AddChild as pinned (children keyed by slot and *)
(* offset only: the first key wins whatever its type, and the new name is    *)
(* bound to a key object the flat index never sees); FALSE models the        *)
(* required behaviour (one record per (slot, offset, type) under a parent).  *)
(***************************************************************************)
EXTENDS Integers, Sequences, FiniteSets, TLC

CONSTANTS Accts, Slots, Offs, Types, Names, Vals, MaxOps, MaxCalls,
          NestIdx,         \* index values of nested keys (mapping keys / array indices): the names and, e.g., the empty byte string
          AllowConflicts,  \* BOOLEAN: also generate a registration that re-uses a name for another (slot, offset, type): it is accepted
                           \* and its key can be journaled and found by slot; which record the NAME then denotes is not judged
          MaxRefused,      \* at most this many refused operations in one history (they are what blows the space up)
          ProbeSlot,       \* a slot never used for a well-formed registration: stands for "unknown parent"
          DevFirstWins

VARIABLES keys,    \* Seq of [slot, off, type, name, root, ntype]   (ntype = StorageKey.nodeType: "root" / "branch" / "data")
          kchild,  \* set of <<parent, slot, off, child>>
          kname,   \* set of <<parent, name, child>>
          index,   \* set of <<acct, slot, off, type, key>>
          roots,   \* set of <<acct, key>>
          chg,     \* function key -> function callIdx -> Seq(val)   (growing domains)
          calls,   \* Seq of parent call (0 = none): the call tree, only its shape
          cur,     \* current call (0 = nil)
          reg,     \* ghost: set of [acct, path, slot, off, type]
          exp,     \* ghost: function reg-record -> function callIdx -> Seq(val)
          hist     \* history of operations with the outcome class the property demands

vars == <<keys, kchild, kname, index, roots, chg, calls, cur, reg, exp, hist>>

Get(f, k, d) == IF k \in DOMAIN f THEN f[k] ELSE d
Put(f, k, v) == [x \in DOMAIN f \cup {k} |-> IF x = k THEN v ELSE f[x]]
AppendCollapsed(s, v) == IF Len(s) > 0 /\ s[Len(s)] = v THEN s ELSE Append(s, v)
CallIdx == IF cur = 0 THEN 0 ELSE cur - 1          \* Tracer.CurrentCallIndex (0-based; 0 also when nil)

Init ==
  /\ keys = <<>> /\ kchild = {} /\ kname = {} /\ index = {} /\ roots = {}
  /\ chg = <<>> /\ calls = <<>> /\ cur = 0 /\ reg = {} /\ exp = <<>> /\ hist = <<>>

---------------------------------------------------------------------------
(* implementation-shaped lookups *)

RootOf(a) == IF \E k \in 1..Len(keys) : <<a, k>> \in roots THEN CHOOSE k \in 1..Len(keys) : <<a, k>> \in roots ELSE 0
FindKey(a, s, o, t) ==
  IF \E k \in 1..Len(keys) : <<a, s, o, t, k>> \in index THEN CHOOSE k \in 1..Len(keys) : <<a, s, o, t, k>> \in index ELSE 0
NameChild(p, n) == IF \E k \in 1..Len(keys) : <<p, n, k>> \in kname THEN CHOOSE k \in 1..Len(keys) : <<p, n, k>> \in kname ELSE 0
RECURSIVE Walk(_, _)
Walk(k, path) == IF k = 0 \/ path = <<>> THEN k ELSE Walk(NameChild(k, Head(path)), Tail(path))
FindByPath(a, path) == Walk(RootOf(a), path)                    \* StateChanges.FindKeyIndices
AllIdx == Names \cup NestIdx
ChildNames(k) == {n \in AllIdx : NameChild(k, n) # 0}             \* StorageKey.ChildrenIndices as a set
Changes(k) == IF k = 0 THEN <<>> ELSE Get(chg, k, <<>>)

---------------------------------------------------------------------------
(* ghost: what the property calls registered *)

RegOf(a, s, o, t) == {r \in reg : r.acct = a /\ r.slot = s /\ r.off = o /\ r.type = t}
PathTaken(a, path) == \E r \in reg : r.acct = a /\ r.path = path
\* well-formed registration sequences keep path <-> (slot, off, type) one-to-one per account
WellFormed(a, path, s, o, t) ==
  /\ \A r \in reg : (r.acct = a /\ r.path = path) => (r.slot = s /\ r.off = o /\ r.type = t)
  /\ \A r \in reg : (r.acct = a /\ r.slot = s /\ r.off = o /\ r.type = t) => r.path = path

\* a name that already denotes another layout, for a (slot, offset, type) nobody registered yet
NameConflict(a, path, s, o, t) ==
  /\ AllowConflicts
  /\ \E r \in reg : r.acct = a /\ r.path = path /\ <<r.slot, r.off, r.type>> # <<s, o, t>>
  /\ RegOf(a, s, o, t) = {}
\* the ghost record of such a registration has no usable name: its path starts with "#"
Named(r) == r.path[1] # "#"
PathFor(a, path, s, o, t) == IF NameConflict(a, path, s, o, t) THEN <<"#", ToString(Cardinality(reg))>> \o path ELSE path

Rec(op, a, n, ps, pt, s, o, t, v, res) ==
  [op |-> op, acct |-> a, name |-> n, pslot |-> ps, ptype |-> pt, slot |-> s, off |-> o, type |-> t, val |-> v, res |-> res]

---------------------------------------------------------------------------
(* saveKey: the part after the parent key has been found *)

AddUnder(a, ks, parent, n, s, o, t) ==
  LET new == Len(ks) + 1
      same == IF DevFirstWins
              THEN {k \in 1..Len(ks) : <<parent, s, o, k>> \in kchild}
              ELSE {k \in 1..Len(ks) : <<parent, s, o, k>> \in kchild /\ ks[k].type = t}
      exists == same # {}
      child == IF exists THEN CHOOSE k \in same : TRUE ELSE new
      nameFree == ~\E k \in 1..Len(ks) : <<parent, n, k>> \in kname
      \* as pinned, the fresh key object is bound to the name even when an existing key is returned
      nameTo == IF DevFirstWins THEN new ELSE child
      alloc == (~exists) \/ (DevFirstWins /\ nameFree)
      c == IF exists THEN ks[child] ELSE [slot |-> s, off |-> o, type |-> t]
  IN /\ keys' = IF alloc THEN Append(ks, [slot |-> s, off |-> o, type |-> t, name |-> n, root |-> FALSE, ntype |-> "branch"]) ELSE ks
     /\ kname' = IF nameFree THEN kname \cup {<<parent, n, nameTo>>} ELSE kname
     /\ kchild' = IF exists THEN kchild ELSE kchild \cup {<<parent, s, o, new>>}
     /\ index' = IF FindKey(a, c.slot, c.off, c.type) = 0 THEN index \cup {<<a, c.slot, c.off, c.type, child>>} ELSE index

RefusedSoFar == Cardinality({i \in 1..Len(hist) : hist[i].res = "refused"})
Refused(rec) ==
  /\ RefusedSoFar < MaxRefused
  /\ hist' = Append(hist, rec)
  /\ UNCHANGED <<keys, kchild, kname, index, roots, chg, calls, cur, reg, exp>>

RegTop(a, n, s, o, t) ==
  /\ WellFormed(a, <<n>>, s, o, t) \/ (o <= 31 /\ NameConflict(a, <<n>>, s, o, t))
  /\ IF o > 31
     THEN Refused(Rec("regtop", a, n, 0, "", s, o, t, "", "refused"))
     ELSE LET dup == [acct |-> a, path |-> <<n>>, slot |-> s, off |-> o, type |-> t] \in reg
              hasRoot == RootOf(a) # 0
              ks == IF hasRoot THEN keys ELSE Append(keys, [slot |-> -1, off |-> 0, type |-> "", name |-> "", root |-> TRUE, ntype |-> "root"])
              root == IF hasRoot THEN RootOf(a) ELSE Len(keys) + 1
          IN \* two steps of the Go code folded into one action: create the root if missing, then AddChild
             /\ AddUnder(a, ks, root, n, s, o, t)
             /\ roots' = IF hasRoot THEN roots ELSE roots \cup {<<a, root>>}
             /\ reg' = reg \cup {[acct |-> a, path |-> PathFor(a, <<n>>, s, o, t), slot |-> s, off |-> o, type |-> t]}
             /\ hist' = Append(hist, Rec("regtop", a, n, 0, "", s, o, t, "", IF dup THEN "dup" ELSE "ok"))
             /\ UNCHANGED <<chg, calls, cur, exp>>

RegNested(a, ps, pt, n, s, o, t) ==
  LET parents == RegOf(a, ps, 0, pt) IN
  /\ \/ parents # {}
     \/ ps = ProbeSlot                        \* one representative of "unknown parent"
  /\ IF parents = {} \/ o > 31
     THEN /\ (parents # {} => LET p == CHOOSE r \in parents : TRUE IN WellFormed(a, Append(p.path, n), s, o, t))
          /\ Refused(Rec("regnested", a, n, ps, pt, s, o, t, "", "refused"))
     ELSE LET p == CHOOSE r \in parents : TRUE
              path == Append(p.path, n)
              dup == [acct |-> a, path |-> path, slot |-> s, off |-> o, type |-> t] \in reg
              pk == FindKey(a, ps, 0, pt)
          IN /\ WellFormed(a, path, s, o, t) \/ NameConflict(a, path, s, o, t)
             /\ Len(path) <= 3 \/ ~Named(p)
             /\ IF pk = 0
                THEN \* the flat index does not know a registered parent (only reachable with DevFirstWins)
                     UNCHANGED <<keys, kchild, kname, index>>
                ELSE AddUnder(a, keys, pk, n, s, o, t)
             /\ reg' = reg \cup {[acct |-> a, path |-> PathFor(a, path, s, o, t), slot |-> s, off |-> o, type |-> t]}
             /\ hist' = Append(hist, Rec("regnested", a, n, ps, pt, s, o, t, "", IF dup THEN "dup" ELSE "ok"))
             /\ UNCHANGED <<roots, chg, calls, cur, exp>>

Change(a, s, o, t, v) ==
  LET rs == RegOf(a, s, o, t) IN
  IF o > 31 \/ rs = {}
  THEN Refused(Rec("change", a, "", 0, "", s, o, t, v, "refused"))
  ELSE LET r == CHOOSE x \in rs : TRUE
           k == IF RootOf(a) = 0 THEN 0 ELSE FindKey(a, s, o, t)
           old == Get(exp, r, <<>>)
       IN /\ exp' = Put(exp, r, Put(old, CallIdx, AppendCollapsed(Get(old, CallIdx, <<>>), v)))
          /\ chg' = IF k = 0 THEN chg
                    ELSE LET per == Get(chg, k, <<>>) IN Put(chg, k, Put(per, CallIdx, AppendCollapsed(Get(per, CallIdx, <<>>), v)))
          \* StorageKey.JournalChanges: the first change makes a non-root key a data node; it never goes back
          /\ keys' = IF k = 0 \/ k \in DOMAIN chg \/ keys[k].ntype = "root" THEN keys ELSE [keys EXCEPT ![k].ntype = "data"]
          /\ hist' = Append(hist, Rec("change", a, "", 0, "", s, o, t, v, "ok"))
          /\ UNCHANGED <<kchild, kname, index, roots, calls, cur, reg>>

EnterCall ==
  /\ Len(calls) < MaxCalls
  /\ calls' = Append(calls, cur) /\ cur' = Len(calls) + 1
  /\ hist' = Append(hist, Rec("enter", "", "", 0, "", 0, 0, "", "", "ok"))
  /\ UNCHANGED <<keys, kchild, kname, index, roots, chg, reg, exp>>

ExitCall ==
  /\ cur # 0
  /\ cur' = calls[cur]
  /\ hist' = Append(hist, Rec("exit", "", "", 0, "", 0, 0, "", "", "ok"))
  /\ UNCHANGED <<keys, kchild, kname, index, roots, chg, calls, reg, exp>>

Next ==
  /\ Len(hist) < MaxOps
  /\ \/ \E a \in Accts, n \in Names, s \in Slots, o \in Offs, t \in Types : RegTop(a, n, s, o, t)
     \/ \E a \in Accts, ps \in Slots \cup {ProbeSlot}, pt \in Types, n \in NestIdx, s \in Slots, o \in Offs, t \in Types :
           RegNested(a, ps, pt, n, s, o, t)
     \/ \E a \in Accts, s \in Slots, o \in Offs, t \in Types, v \in Vals : Change(a, s, o, t, v)
     \/ EnterCall \/ ExitCall

Spec == Init /\ [][Next]_vars

---------------------------------------------------------------------------
(* C11 *)

\* by name/index path and by (slot, offset, type) reach the same record
LookupAgree ==
  \A r \in reg : IF Named(r) THEN FindByPath(r.acct, r.path) # 0 /\ FindByPath(r.acct, r.path) = FindKey(r.acct, r.slot, r.off, r.type)
                 ELSE FindKey(r.acct, r.slot, r.off, r.type) # 0
\* a change journaled for a registered key is returned by both
ChangeVisibleBoth ==
  \A r \in reg : /\ Named(r) => Changes(FindByPath(r.acct, r.path)) = Get(exp, r, <<>>)
                 /\ Changes(FindKey(r.acct, r.slot, r.off, r.type)) = Get(exp, r, <<>>)
\* the child indices reported for a node are exactly those registered under it
KidsOf(r) == {n \in AllIdx : PathTaken(r.acct, Append(r.path, n))}
ChildIndicesExact ==
  /\ \A r \in reg : (Named(r) /\ FindByPath(r.acct, r.path) # 0) => ChildNames(FindByPath(r.acct, r.path)) = KidsOf(r)
  /\ \A a \in Accts : RootOf(a) # 0 => ChildNames(RootOf(a)) = {n \in Names : PathTaken(a, <<n>>)}
\* node types (section 11 growth: not a listed property, a described behaviour): the root of an account is a root node; a registered
\* key is a branch node until a change has been journaled for it and a data node from then on, by whichever way it is reached
NTypeOf(k) == IF k = 0 THEN "none" ELSE keys[k].ntype
WantNType(r) == IF Get(exp, r, <<>>) = <<>> THEN "branch" ELSE "data"
NodeTypeExact ==
  /\ \A r \in reg : /\ NTypeOf(FindKey(r.acct, r.slot, r.off, r.type)) = WantNType(r)
                     /\ (Named(r) => NTypeOf(FindByPath(r.acct, r.path)) = WantNType(r))
  /\ \A a \in Accts : RootOf(a) # 0 => keys[RootOf(a)].ntype = "root"
\* a data node never becomes a branch node again, a root never changes type, the type of an existing key changes only with a change
NodeTypeMonotone ==
  [][\A k \in 1..Len(keys) : /\ (keys[k].ntype = "data" => keys'[k].ntype = "data")
                              /\ (keys[k].ntype = "root" <=> keys'[k].ntype = "root")
                              /\ (keys'[k].ntype # keys[k].ntype => hist'[Len(hist')].op = "change")]_vars
\* refused operations and repeated registrations modify nothing
RefuseIdempotent ==
  [][(hist' # hist /\ hist'[Len(hist')].res \in {"refused", "dup"}) =>
        UNCHANGED <<keys, kchild, kname, index, chg, reg, exp>>]_vars
TypeOK == Len(hist) <= MaxOps /\ cur \in 0..Len(calls)

---------------------------------------------------------------------------
(* projection for the conformance harness *)

SetToSeq(S) == LET RECURSIVE f(_) f(T) == IF T = {} THEN <<>> ELSE LET x == CHOOSE y \in T : TRUE IN <<x>> \o f(T \ {x}) IN f(S)
ExpOf(r) == LET e == Get(exp, r, <<>>) IN SetToSeq({[idx |-> i, vals |-> e[i]] : i \in DOMAIN e})
Expect ==
  [ hist |-> hist,
    reg  |-> SetToSeq({[acct |-> r.acct, path |-> r.path, slot |-> r.slot, off |-> r.off, type |-> r.type, named |-> Named(r),
                         ntype |-> WantNType(r), chg |-> ExpOf(r), kids |-> SetToSeq(KidsOf(r))] : r \in reg}),
    tops |-> SetToSeq({[acct |-> a, kids |-> SetToSeq({n \in Names : PathTaken(a, <<n>>)})] : a \in Accts}) ]
=============================================================================
