SPECIFICATION Spec
CONSTANTS
  MaxDepth = 3
  MaxWidth = 2
  MaxAsp = 2
  MaxAspCalls = 2
  MaxNodes = 5
  Kinds = {"CALL", "STATICCALL", "CREATE"}
  Targets = {"c", "p"}
  Errs = {"", "revert"}
  AspErrs = {"", "fail"}
  TxAsp = 1
  DevOffByOne = FALSE
  DevExitFirstOfType = FALSE
  DevFlatFilterParent = FALSE
INVARIANTS TypeOK NoCrash FiledUnderIssuer OwnResult FilterExact FlatDesign
CHECK_DEADLOCK FALSE
