--------------------------- MODULE InstancesScn ---------------------------
EXTENDS Instances, Json
Emit == AllDone => PrintT("IN " \o ToJson(Expect))
=============================================================================
