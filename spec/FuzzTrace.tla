----------------------------- MODULE FuzzTrace -----------------------------
(***************************************************************************)
(* Trace validation for C03 and C20 on executions of arbitrary byte code   *)
(* (journal opcodes, Cancun additions, Artela precompiles included).       *)
(*                                                                         *)
(* Host protocol: rest -call-> busy -result-> returned -probe-> rest.      *)
(* There is no action for a panic: a result line that carries one is a     *)
(* discrepancy ("crash"); after every result the bookkeeping must be       *)
(* closed (call-tree cursor nil, next top-level call announced at depth 0) *)
(* ("rest").  Every work line is one executed instruction with the state   *)
(* reads/writes it performed and the gas it was charged: the work must be  *)
(* bounded by a fixed multiple of the charge ("work").                     *)
(***************************************************************************)
EXTENDS Integers, Sequences, FiniteSets, TLC, Json

CONSTANTS TraceFile,
          ReadGas,    \* gas one state read must at least be backed by (20: a 50-gas Frontier SLOAD makes 1-2 reads)
          Slack,      \* reads allowed on top of that (2)
          MemSlack    \* bytes of memory growth allowed on top of what the charge covers (64)
Trace == ndJsonDeserialize(TraceFile)

VARIABLES l, phase, bad, cnt
vars == <<l, phase, bad, cnt>>
Init == l = 1 /\ phase = "rest" /\ bad = <<>> /\ cnt = [runs |-> 0, work |-> 0, journal |-> 0, maxreads |-> 0, failedruns |-> 0, grows |-> 0, biggrows |-> 0]

\* Memory: every word by which an instruction grows its frame's memory costs at least 3 gas (the linear term of the expansion price),
\* whatever the instruction.  For a call-family instruction the gas handed to the callee (e.fwd, at most 2300 of it a stipend that was not
\* charged) is part of the reported cost but pays for nothing.
MemOK(e) == e.cost < 0 \/ e.grow <= 0 \/ 3 * e.grow <= 32 * (e.cost - e.fwd + 2300) + 3 * MemSlack
WorkOK(e) == (e.cost < 0 \/ (e.reads + e.writes) * ReadGas <= e.cost + Slack * ReadGas) /\ MemOK(e)
Add(c, e) == bad' = IF Len(bad) < 60 /\ Len(SelectSeq(bad, LAMBDA x : x.c = c)) < 12 THEN Append(bad, [c |-> c, l |-> l, e |-> e]) ELSE bad   \* samples per kind

Next ==
  /\ l <= Len(Trace)
  /\ LET e == Trace[l] IN
     CASE e.k = "call" -> /\ phase' = "busy" /\ (IF phase # "rest" THEN Add("protocol", e) ELSE UNCHANGED bad)
                          /\ cnt' = [cnt EXCEPT !.runs = @ + 1]
       [] e.k = "result" -> /\ phase' = "returned"
                            /\ (IF e.panic # "" THEN Add("crash", e) ELSE UNCHANGED bad)
                            /\ cnt' = [cnt EXCEPT !.failedruns = @ + (IF e.err # "" THEN 1 ELSE 0)]
       [] e.k = "work" -> /\ UNCHANGED phase
                          /\ (IF WorkOK(e) THEN UNCHANGED bad ELSE Add("work", e))
                          /\ cnt' = [cnt EXCEPT !.work = @ + 1, !.journal = @ + (IF e.op >= 224 /\ e.op <= 231 THEN 1 ELSE 0),
                                                !.maxreads = IF e.reads > @ THEN e.reads ELSE @,
                                                !.grows = @ + (IF e.grow > 0 THEN 1 ELSE 0), !.biggrows = @ + (IF e.grow >= 65536 THEN 1 ELSE 0)]
       [] e.k = "probe" -> /\ phase' = "rest"
                           /\ (IF e.cursornil = 1 /\ e.start = 1 THEN UNCHANGED bad ELSE Add("rest", e))
                           /\ UNCHANGED cnt
  /\ l' = l + 1
Spec == Init /\ [][Next]_vars
Report == (l = Len(Trace) + 1) => PrintT("FT " \o ToJson([lines |-> Len(Trace), bad |-> bad, cnt |-> cnt]))
=============================================================================
