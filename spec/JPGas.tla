------------------------------ MODULE JPGas ------------------------------
(***************************************************************************)
(* Gas through the contract-call join points (C06).                        *)
(*                                                                         *)
(* Part 1 - the vector space TLC enumerates: one CALL from a caller        *)
(* contract to a callee that has Aspects bound to its pre and post join    *)
(* points; each Aspect burns nothing / a little / a lot of gas, runs out   *)
(* of gas, or traps; the callee stops, works, reverts, executes an invalid *)
(* instruction or runs out of gas; the caller forwards ample or tight gas. *)
(*                                                                         *)
(* Part 2 - the rules the recorded execution must obey (JPGasTrace uses    *)
(* them on the real event stream).  Gas an Aspect burns is whatever the    *)
(* real Aspect runtime metered: the rules are relational.                  *)
(***************************************************************************)
EXTENDS Integers, Sequences, FiniteSets, TLC

CONSTANTS Burns,      \* subset of {"none", "small", "big", "inf", "trap"}
          Bodies,     \* subset of {"stop", "work", "revert", "invalid", "oog"}
          Gases,      \* subset of {"ample", "tight"}
          MaxAspects  \* Aspects per join point: lists of length 0..MaxAspects

VARIABLE vec
vars == <<vec>>

Lists(n) == UNION {[1..k -> Burns] : k \in 0..n}
\* a failing Aspect ends its join point: later Aspects of the list never run (djpm breaks the loop)
Vectors == {[pre |-> p, body |-> b, post |-> q, gas |-> g] : p \in Lists(MaxAspects), b \in Bodies, q \in Lists(MaxAspects), g \in Gases}

Init == vec \in Vectors
Next == UNCHANGED vec
Spec == Init /\ [][Next]_vars

Fails(b) == b \in {"inf", "trap"}
FirstFail(l) == IF \E i \in 1..Len(l) : Fails(l[i]) THEN CHOOSE i \in 1..Len(l) : Fails(l[i]) /\ \A j \in 1..(i - 1) : ~Fails(l[j]) ELSE 0
\* what must happen, structurally (with ample gas; with tight gas an Aspect that merely burns may run out as well)
Expect(v) ==
  LET pf == FirstFail(v.pre)
      \* a callee that ran out of gas leaves (next to) nothing: whatever its first post Aspect is, it runs out of gas
      qf == IF v.body = "oog" /\ Len(v.post) > 0 THEN 1 ELSE FirstFail(v.post)
      preRuns == IF pf = 0 THEN Len(v.pre) ELSE pf
      bodyRuns == pf = 0
      postRuns == IF ~bodyRuns THEN 0 ELSE IF qf = 0 THEN Len(v.post) ELSE qf
      err == IF pf # 0 THEN (IF v.pre[pf] = "inf" THEN "oog" ELSE "jperr")
             ELSE IF qf # 0 THEN (IF v.post[qf] = "inf" \/ v.body = "oog" THEN "oog" ELSE "jperr")
             ELSE CASE v.body = "stop" -> "" [] v.body = "work" -> "" [] v.body = "revert" -> "revert" [] v.body = "invalid" -> "invalid" [] v.body = "oog" -> "oog"
  IN [preRuns |-> preRuns, bodyRuns |-> bodyRuns, postRuns |-> postRuns, err |-> err]

---------------------------------------------------------------------------
(* Part 2: rules over one recorded call.  given = gas announced at the frame's entry; aen/aex = gas at each Aspect's *)
(* entry / exit in order, with its join point; first = gas before the callee's first instruction (-1: it never ran); *)
(* last = gas the callee had left when its code ended (-1: unknown); used = gasUsed reported at the frame's exit.     *)

Returned(given, used) == given - used
RuleNoCreation(aen, aex) == \A i \in 1..Len(aen) : aex[i] <= aen[i]
RuleChain(aen, aex, jp) == \A i \in 2..Len(aen) : jp[i] = jp[i - 1] => aen[i] = aex[i - 1]
RulePreStart(given, aen, jp) == (Len(aen) > 0 /\ jp[1] = "pre") => aen[1] = given
PreIdx(jp) == {i \in 1..Len(jp) : jp[i] = "pre"}
PostIdx(jp) == {i \in 1..Len(jp) : jp[i] = "post"}
LastOf(S) == CHOOSE i \in S : \A j \in S : j <= i
FirstOf(S) == CHOOSE i \in S : \A j \in S : i <= j
\* the callee starts with exactly what the pre join point left (or with what it was given when nothing is bound)
RuleCalleeStart(given, aex, jp, first) ==
  first >= 0 => first = (IF PreIdx(jp) = {} THEN given ELSE aex[LastOf(PreIdx(jp))])
\* the post join point starts with exactly what the callee's code left
RulePostStart(aen, jp, last) == (PostIdx(jp) # {} /\ last >= 0) => aen[FirstOf(PostIdx(jp))] = last
\* the caller gets back exactly what the post join point left when the frame succeeds or reverts, nothing otherwise
RuleReturn(given, used, aex, jp, last, err, preFailed) ==
  IF preFailed     \* the exact amount is fixed only for out-of-gas (below); but what the failing Aspect consumed is deducted in every case:
  THEN PreIdx(jp) # {} => Returned(given, used) <= aex[LastOf(PreIdx(jp))]     \* the caller cannot get back more than the pre join point left
  ELSE IF err \in {"", "execution reverted"}
       THEN Returned(given, used) = (IF PostIdx(jp) = {} THEN (IF last >= 0 THEN last ELSE Returned(given, used)) ELSE aex[LastOf(PostIdx(jp))])
       ELSE Returned(given, used) = 0
RuleBound(given, used) == Returned(given, used) <= given /\ Returned(given, used) >= 0
\* an Aspect that ran out of gas surfaces as the EVM's out-of-gas error with no gas returned
RuleAspectOOG(given, used, aerr, err) ==
  (\E i \in 1..Len(aerr) : aerr[i] = "out of gas") => (err = "out of gas" /\ Returned(given, used) = 0)
=============================================================================
