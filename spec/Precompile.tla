---------------------------- MODULE Precompile ----------------------------
(***************************************************************************)
(* The Artela precompiles 0x64 (context read), 0x65 (user-operation        *)
(* sender) and 0x66 (context write) as decoders of their call payload      *)
(* (C14, and the payload part of C03).  Payload positions and lengths are  *)
(* integers; head and length words may also be class codes >= 1000         *)
(* (1001..1008 = 2^31, 2^32, 2^63, 2^64-1, 2^64, 2^255, 2^256-1, 2^64-32), *)
(* all larger than any payload.  Every initial state is one vector; the    *)
(* harness builds the payload bytes, performs the call on the real EVM and *)
(* compares what reached the host callbacks with Expect.                   *)
(***************************************************************************)
EXTENDS Integers, Sequences, FiniteSets, TLC

CONSTANTS Kinds,      \* subset of {"read", "sender", "write", "attr", "work"}
          Forks,      \* fork names for the attribution / availability vectors
          AllocPerGas,\* C20: bytes a call may allocate per unit of gas it is charged ...
          AllocSlack  \* ... on top of this many bytes that any call may allocate (frame, memory page, result)

VARIABLE vec
vars == <<vec>>

Bigs == 1001..1008
IsBig(x) == x >= 1000

---------------------------------------------------------------------------
(* 0x66: abi.encode(bytes key, bytes value) *)

\* The word found at an (aligned) position of the payload the harness builds: the two head words, then the
\* length words written at off0 and off1 (in that order, only at positions >= 64), pattern bytes elsewhere.
Garbage == 1007
WordAt(p, v) ==
  IF p = 0 THEN v.off0 ELSE IF p = 32 THEN v.off1
  ELSE IF p = v.off1 /\ ~IsBig(v.off1) /\ v.off1 >= 64 THEN v.len1
  ELSE IF p = v.off0 /\ ~IsBig(v.off0) /\ v.off0 >= 64 THEN v.len0
  ELSE Garbage

\* a dynamic argument whose head word is `off` is well-formed iff its length word and its data lie inside the payload
ArgOK(n, off, len) == ~IsBig(off) /\ off + 32 <= n /\ ~IsBig(len) /\ off + 32 + len <= n

WriteExpect(v) ==
  LET l0 == IF IsBig(v.off0) \/ v.off0 + 32 > v.n THEN Garbage ELSE WordAt(v.off0, v)
      l1 == IF IsBig(v.off1) \/ v.off1 + 32 > v.n THEN Garbage ELSE WordAt(v.off1, v)
  IN IF v.n < 128 \/ ~ArgOK(v.n, v.off0, l0) \/ ~ArgOK(v.n, v.off1, l1)
     THEN [ok |-> FALSE, kstart |-> 0, klen |-> 0, vstart |-> 0, vlen |-> 0]
     ELSE [ok |-> TRUE, kstart |-> v.off0 + 32, klen |-> l0, vstart |-> v.off1 + 32, vlen |-> l1]

\* 0x64: 20-byte address followed by the key;  0x65: exactly one 32-byte hash
ReadExpect(v) == IF v.n < 20 THEN [ok |-> FALSE, klen |-> 0] ELSE [ok |-> TRUE, klen |-> v.n - 20]
SenderExpect(v) == [ok |-> (v.n = 32)]

\* attribution of a context write by call kind: CALL is attributed to the contract that made the call;
\* the other kinds may be attributed to that same contract or refused - nothing else
AttrExpect(v) ==
  IF v.fork \in {"Istanbul"} THEN [avail |-> FALSE, must |-> "nohost"]      \* before Berlin the address is an empty account
  ELSE [avail |-> TRUE, must |-> IF v.kind = "CALL" THEN "caller" ELSE "caller-or-refused"]

---------------------------------------------------------------------------
WOffs == {0, 32, 64, 96, 128, 288, 320} \cup {1003, 1004, 1005, 1007, 1008}
WLens == {0, 1, 32, 33, 64, 65, 224} \cup {1001, 1003, 1004, 1005, 1007, 1008}
WRITE == {[k |-> "write", n |-> n, off0 |-> a, off1 |-> b, len0 |-> x, len1 |-> y] :
             n \in {128, 160, 192, 320}, a \in WOffs, b \in WOffs, x \in WLens, y \in WLens}
         \cup {[k |-> "write", n |-> n, off0 |-> 64, off1 |-> 96, len0 |-> 0, len1 |-> 0] : n \in {0, 1, 31, 32, 64, 96, 127}}
READ == {[k |-> "read", n |-> n] : n \in {0, 1, 19, 20, 21, 52, 100, 300}}
SENDER == {[k |-> "sender", n |-> n] : n \in {0, 1, 31, 32, 33, 64}}
ATTR == {[k |-> "attr", kind |-> c, depth |-> d, fork |-> f, pc |-> p] :
            c \in {"CALL", "CALLCODE", "DELEGATECALL", "STATICCALL"}, d \in {1, 2}, f \in Forks, p \in {"write", "read", "sender"}}

\* two contracts reach 0x66 one after the other (same process, same precompile table): the second write must not
\* inherit anything from the first
SEQ == {[k |-> "seq", kind1 |-> c1, kind2 |-> c2, same |-> sm, fork |-> f] :
           c1 \in {"CALL", "DELEGATECALL"}, c2 \in {"CALL", "CALLCODE", "DELEGATECALL", "STATICCALL"}, sm \in BOOLEAN, f \in Forks \ {"Istanbul"}}

\* C20: a call to a precompile (standard 1..9, Artela 100..102) whose first three payload words announce lengths of every size class,
\* backed by n bytes of actual payload: what the call allocates must be bounded by what it is charged.
\* 1009..1011 = 2^16, 2^20, 2^24 (sizes an unmetered implementation would really allocate)
WorkLens == {0, 1, 32, 1009, 1010, 1011, 1002, 1004, 1007}
WORK == {[k |-> "work", addr |-> p, a |-> x, b |-> y, c |-> z, n |-> n, fork |-> f] :
            p \in (1..9) \cup {100, 101, 102}, x \in WorkLens, y \in WorkLens, z \in WorkLens, n \in {96, 213, 384}, f \in {"Byzantium", "Berlin"}}
WorkOK(alloc, gas) == alloc <= AllocPerGas * gas + AllocSlack

Vectors == (IF "work" \in Kinds THEN WORK ELSE {}) \cup (IF "attr" \in Kinds THEN SEQ ELSE {}) \cup (IF "write" \in Kinds THEN WRITE ELSE {}) \cup (IF "read" \in Kinds THEN READ ELSE {})
           \cup (IF "sender" \in Kinds THEN SENDER ELSE {}) \cup (IF "attr" \in Kinds THEN ATTR ELSE {})

Init == vec \in Vectors
Next == UNCHANGED vec
Spec == Init /\ [][Next]_vars

Expect(v) ==
  CASE v.k = "write" -> WriteExpect(v)
    [] v.k = "read" -> ReadExpect(v)
    [] v.k = "sender" -> SenderExpect(v)
    [] v.k = "attr" -> AttrExpect(v)
    [] v.k = "work" -> [allocPerGas |-> AllocPerGas, allocSlack |-> AllocSlack]
    [] v.k = "seq" -> [avail |-> TRUE, must |-> IF v.kind2 = "CALL" THEN "caller" ELSE "caller-or-refused"]

\* design sanity: an accepted write lies inside the payload and behind the heads' own length words
WriteInside ==
  vec.k = "write" => LET e == WriteExpect(vec) IN
     e.ok => (e.kstart + e.klen <= vec.n /\ e.vstart + e.vlen <= vec.n /\ e.kstart >= 32 /\ e.vstart >= 32)
\* the canonical encoding is accepted
CanonicalAccepted ==
  (vec.k = "write" /\ vec.n >= 128 /\ vec.off0 = 64 /\ vec.off1 = 96 /\ vec.len0 = 0 /\ vec.len1 = 0) => WriteExpect(vec).ok
=============================================================================
