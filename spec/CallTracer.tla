---------------------------- MODULE CallTracer ----------------------------
(***************************************************************************)
(* The callTracer / flatCallTracer of tracers/native (call.go, call_flat.go)*)
(* as consumers of the debug-tracer callback stream.                        *)
(*                                                                         *)
(* Generator: a pushdown system that produces exactly the well-nested       *)
(* streams the EVM and the Aspect runner can produce: per frame             *)
(*     pre-JP Aspect runs* . (calls)* . post-JP Aspect runs*                *)
(* where every Aspect run may itself contain EVM calls (full frames again). *)
(*                                                                         *)
(* Ghost (what C19 demands): `under[n]` = the frame or Aspect run that      *)
(* issued node n, `res[a]` = the result reported for Aspect run a itself.   *)
(* Implementation-shaped: the tracer's callstack, the per-frame join-point  *)
(* marker, JoinPoints list and the filing rules of CaptureExit /            *)
(* CaptureAspectExit (`iunder`, `ires`, `crashed`), with the pinned code's  *)
(* behaviour behind deviation switches.                                     *)
(***************************************************************************)
EXTENDS Integers, Sequences, FiniteSets, TLC

CONSTANTS MaxDepth,      \* frames nested on the stack (top-level frame = 1)
          MaxWidth,      \* calls issued by one frame body
          MaxAsp,        \* Aspect runs per join point of one frame
          MaxAspCalls,   \* calls issued by one Aspect run
          MaxNodes,      \* frames + Aspect runs in one stream
          Kinds,         \* subset of {"CALL","STATICCALL","DELEGATECALL","CREATE"}
          Targets,       \* subset of {"c","p"}: contract / precompile
          Errs,          \* subset of {"", "revert", "oog"}
          AspErrs,       \* subset of {"", "fail"}
          TxAsp,         \* Aspect runs on each of the transaction-level join points (pre-tx before CaptureStart, post-tx after CaptureEnd)
          DevOffByOne,        \* CaptureExit indexes JoinPoints[len] (pinned: out of range)
          DevExitFirstOfType, \* CaptureAspectExit completes the FIRST join point entry of that type
          DevFlatFilterParent \* flat tracer's precompile filter looks at parent.Calls[len-1] whatever the filing

VARIABLES nodes,   \* Seq of [t: "frame"|"asp", kind, to, jp, err, open]
          under,   \* ghost: node -> issuing node (0 for the top frame)
          res,     \* ghost: asp node -> [err]
          stack,   \* generator: Seq of node ids currently open (frames and Aspect runs)
          phase,   \* frame node -> "pretx" | "pre" | "body" | "post" | "posttx"   (the tx-level phases only for the top frame)
          evs,     \* the event stream
          cs,      \* impl: callstack of frame nodes
          marker,  \* impl: frame node -> "" | "pre" | "post"
          jps,     \* impl: frame node -> Seq of asp nodes (JoinPoints)
          iunder,  \* impl: frame node -> node it was filed under
          ires,    \* impl: asp node -> result written into its entry ("none" if never completed)
          ifilt,   \* impl(flat): set of frame nodes removed by the precompile filter
          crashed, done

vars == <<nodes, under, res, stack, phase, evs, cs, marker, jps, iunder, ires, ifilt, crashed, done>>

Top == stack[Len(stack)]
IsFrame(n) == nodes[n].t = "frame"
FrameDepth == Cardinality({i \in 1..Len(stack) : IsFrame(stack[i])})
KidsOf(n) == {m \in 1..Len(nodes) : under[m] = n}
FrameKids(n) == {m \in KidsOf(n) : IsFrame(m)}
AspKids(n, jp) == {m \in KidsOf(n) : ~IsFrame(m) /\ nodes[m].jp = jp}
Put(f, k, v) == [x \in DOMAIN f \cup {k} |-> IF x = k THEN v ELSE f[x]]

Init ==
  /\ nodes = <<>> /\ under = <<>> /\ res = <<>> /\ stack = <<>> /\ phase = <<>> /\ evs = <<>>
  /\ cs = <<>> /\ marker = <<>> /\ jps = <<>> /\ iunder = <<>> /\ ires = <<>> /\ ifilt = {}
  /\ crashed = FALSE /\ done = FALSE

Ev(e, n) == [e |-> e, n |-> n]

\* CaptureTxStart: the tracer's first call frame exists from construction; pre-tx Aspect runs are filed there
TxStart ==
  /\ nodes = <<>> /\ ~done
  /\ nodes' = <<[t |-> "frame", kind |-> "CALL", to |-> "c", jp |-> "", err |-> "", open |-> TRUE]>>
  /\ under' = <<0>> /\ stack' = <<1>> /\ phase' = Put(phase, 1, "pretx")
  /\ evs' = <<Ev("txstart", 1)>>
  /\ cs' = <<1>> /\ marker' = Put(marker, 1, "") /\ jps' = Put(jps, 1, <<>>) /\ iunder' = Put(iunder, 1, 0)
  /\ UNCHANGED <<res, ires, ifilt, crashed, done>>

\* CaptureStart
Start ==
  /\ stack = <<1>> /\ phase[1] = "pretx" /\ ~crashed
  /\ phase' = [phase EXCEPT ![1] = "pre"]
  /\ evs' = Append(evs, Ev("start", 1))
  /\ UNCHANGED <<nodes, under, res, stack, cs, marker, jps, iunder, ires, ifilt, crashed, done>>

\* CaptureAspectEnter on the innermost frame
AspEnter ==
  /\ stack # <<>> /\ ~crashed /\ IsFrame(Top) /\ Len(nodes) < MaxNodes
  /\ nodes[Top].to = "c" /\ nodes[Top].kind = "CALL"           \* only message calls that run code have join points
  /\ \E jp \in {"pretx", "pre", "post", "posttx"} :
       /\ (jp = "pretx" => Top = 1 /\ phase[1] = "pretx")
       /\ (jp = "posttx" => Top = 1 /\ phase[1] = "posttx")
       /\ (jp = "pre" => phase[Top] = "pre")
       /\ (jp = "post" => phase[Top] \in {"pre", "body", "post"})
       /\ Cardinality(AspKids(Top, jp)) < (IF jp \in {"pretx", "posttx"} THEN TxAsp ELSE MaxAsp)
       /\ LET a == Len(nodes) + 1 IN
          /\ nodes' = Append(nodes, [t |-> "asp", kind |-> "", to |-> "", jp |-> jp, err |-> "", open |-> TRUE])
          /\ under' = Append(under, Top)
          /\ stack' = Append(stack, a)
          /\ phase' = IF jp = "post" THEN [phase EXCEPT ![Top] = "post"] ELSE phase
          /\ evs' = Append(evs, Ev("aenter", a))
          \* impl: append to JoinPoints of callstack[last], set the marker
          /\ jps' = [jps EXCEPT ![cs[Len(cs)]] = Append(@, a)]
          /\ marker' = [marker EXCEPT ![cs[Len(cs)]] = jp]
          /\ ires' = Put(ires, a, "none")
  /\ UNCHANGED <<res, cs, iunder, ifilt, crashed, done>>

\* CaptureAspectExit
AspExit ==
  /\ stack # <<>> /\ ~crashed /\ ~IsFrame(Top)
  /\ \E e \in AspErrs :
       LET a == Top
           f == cs[Len(cs)]
           jp == nodes[a].jp
           ofType == SelectSeq(jps[f], LAMBDA x : nodes[x].jp = jp)
           target == IF DevExitFirstOfType THEN ofType[1] ELSE ofType[Len(ofType)]
       IN /\ nodes' = [nodes EXCEPT ![a].err = e, ![a].open = FALSE]
          /\ res' = Put(res, a, e)
          /\ stack' = SubSeq(stack, 1, Len(stack) - 1)
          /\ evs' = Append(evs, [e |-> "aexit", n |-> a])
          /\ marker' = [marker EXCEPT ![f] = ""]
          /\ ires' = [ires EXCEPT ![target] = e]
  /\ UNCHANGED <<under, phase, cs, jps, iunder, ifilt, crashed, done>>

\* CaptureEnter: a call issued by the innermost frame's code or by the running Aspect
Enter ==
  /\ stack # <<>> /\ ~crashed /\ Len(nodes) < MaxNodes /\ FrameDepth < MaxDepth
  /\ IF IsFrame(Top)
     THEN /\ phase[Top] \in {"pre", "body"} /\ nodes[Top].to = "c"
          /\ Cardinality(FrameKids(Top)) < MaxWidth
     ELSE /\ Cardinality(FrameKids(Top)) < MaxAspCalls
          /\ nodes[Top].jp \in {"pre", "post"}     \* a call issued at transaction level would be announced by CaptureStart, not CaptureEnter
  /\ \E k \in Kinds, to \in Targets :
       /\ (to = "p" => k \in {"CALL", "STATICCALL", "DELEGATECALL"})
       /\ LET n == Len(nodes) + 1 IN
          /\ nodes' = Append(nodes, [t |-> "frame", kind |-> k, to |-> to, jp |-> "", err |-> "", open |-> TRUE])
          /\ under' = Append(under, Top)
          /\ stack' = Append(stack, n)
          /\ phase' = Put(IF IsFrame(Top) THEN [phase EXCEPT ![Top] = "body"] ELSE phase, n, "pre")
          /\ evs' = Append(evs, Ev("enter", n))
          /\ cs' = Append(cs, n) /\ marker' = Put(marker, n, "") /\ jps' = Put(jps, n, <<>>)
  /\ UNCHANGED <<res, iunder, ires, ifilt, crashed, done>>

\* CaptureExit of a nested frame
Exit ==
  /\ Len(stack) > 1 /\ ~crashed /\ IsFrame(Top)
  /\ \E e \in Errs :
       LET c == Top
           parent == cs[Len(cs) - 1]
           viaAsp == marker[parent] # ""
           idx == IF DevOffByOne THEN Len(jps[parent]) + 1 ELSE Len(jps[parent])
           oob == viaAsp /\ (idx > Len(jps[parent]) \/ idx < 1)
           filedUnder == IF viaAsp THEN (IF oob THEN 0 ELSE jps[parent][idx]) ELSE parent
           \* flat tracer, IncludePrecompiles = FALSE: drop CALL/STATICCALL to a precompile
           isPre == nodes[c].to = "p" /\ nodes[c].kind \in {"CALL", "STATICCALL"}
           \* pinned: inspects parent.Calls[len-1] wherever the call was filed
           pcalls == {m \in 1..Len(nodes) : m # c /\ m \in DOMAIN iunder /\ iunder[m] = parent /\ m \notin ifilt /\ ~nodes[m].open /\ IsFrame(m)}
           lastParentCall == IF viaAsp
                             THEN (IF pcalls = {} THEN 0 ELSE CHOOSE m \in pcalls : \A x \in pcalls : x <= m)
                             ELSE c
       IN /\ nodes' = [nodes EXCEPT ![c].err = e, ![c].open = FALSE]
          /\ stack' = SubSeq(stack, 1, Len(stack) - 1)
          /\ evs' = Append(evs, [e |-> "exit", n |-> c])
          /\ cs' = SubSeq(cs, 1, Len(cs) - 1)
          /\ iunder' = Put(iunder, c, filedUnder)
          /\ IF DevFlatFilterParent
             THEN /\ ifilt' = IF lastParentCall # 0 /\ lastParentCall = c /\ isPre THEN ifilt \cup {c} ELSE ifilt
                  /\ crashed' = (oob \/ lastParentCall = 0)
             ELSE /\ ifilt' = IF isPre THEN ifilt \cup {c} ELSE ifilt
                  /\ crashed' = oob
  /\ UNCHANGED <<under, res, phase, marker, jps, ires, done>>

\* CaptureEnd
End ==
  /\ Len(stack) = 1 /\ ~crashed /\ IsFrame(Top) /\ phase[1] \in {"pre", "body", "post"}
  /\ \E e \in Errs :
       /\ nodes' = [nodes EXCEPT ![1].err = e]
       /\ phase' = [phase EXCEPT ![1] = "posttx"]
       /\ evs' = Append(evs, [e |-> "end", n |-> 1])
  /\ UNCHANGED <<under, res, stack, cs, marker, jps, iunder, ires, ifilt, crashed, done>>

\* CaptureTxEnd
TxEnd ==
  /\ stack = <<1>> /\ ~crashed /\ phase[1] = "posttx"
  /\ nodes' = [nodes EXCEPT ![1].open = FALSE]
  /\ stack' = <<>> /\ cs' = <<>>
  /\ evs' = Append(evs, [e |-> "txend", n |-> 1])
  /\ done' = TRUE
  /\ UNCHANGED <<under, res, phase, marker, jps, iunder, ires, ifilt, crashed>>

Next == TxStart \/ Start \/ AspEnter \/ AspExit \/ Enter \/ Exit \/ End \/ TxEnd
Spec == Init /\ [][Next]_vars

---------------------------------------------------------------------------
(* C19 on the implementation-shaped bookkeeping *)

NoCrash == ~crashed
\* every frame is filed exactly once, under the frame or Aspect run that issued it
FiledUnderIssuer == \A n \in 1..Len(nodes) : (IsFrame(n) /\ ~nodes[n].open) => (n \in DOMAIN iunder /\ iunder[n] = under[n])
\* every Aspect run carries its own result
OwnResult == \A a \in 1..Len(nodes) : (~IsFrame(a) /\ ~nodes[a].open) => ires[a] = res[a]
\* the flat tracer drops exactly the CALL/STATICCALLs to precompiles, wherever they were issued
FilterExact == \A n \in 1..Len(nodes) : (IsFrame(n) /\ ~nodes[n].open /\ n # 1) =>
                  ((n \in ifilt) = (nodes[n].to = "p" /\ nodes[n].kind \in {"CALL", "STATICCALL"}))
TypeOK == Len(nodes) <= MaxNodes /\ Len(stack) <= 2 * MaxDepth + 1

---------------------------------------------------------------------------
(* expected outputs: nested tree (as child lists) and the flat list with trace addresses *)

AscSeq(S) == LET RECURSIVE f(_) f(T) == IF T = {} THEN <<>> ELSE LET x == CHOOSE y \in T : \A z \in T : y <= z IN <<x>> \o f(T \ {x}) IN f(S)
PreOf(n) == AscSeq(AspKids(n, "pretx") \cup AspKids(n, "pre"))
PostOf(n) == AscSeq(AspKids(n, "post") \cup AspKids(n, "posttx"))
CallsOf(n, filter) == AscSeq({m \in FrameKids(n) : ~(filter /\ nodes[m].to = "p" /\ nodes[m].kind \in {"CALL", "STATICCALL"})})

RECURSIVE Flat(_, _, _), FlatList(_, _, _, _)
FlatList(ns, addr, from, filter) ==
  IF ns = <<>> THEN <<>>
  ELSE Flat(Head(ns), Append(addr, from), filter) \o FlatList(Tail(ns), addr, from + 1, filter)
Flat(n, addr, filter) ==
  IF IsFrame(n)
  THEN LET pre == PreOf(n) calls == CallsOf(n, filter) post == PostOf(n) IN
       <<[n |-> n, addr |-> addr, sub |-> Len(pre) + Len(calls) + Len(post)]>>
         \o FlatList(pre, addr, 0, filter) \o FlatList(calls, addr, Len(pre), filter) \o FlatList(post, addr, Len(pre) + Len(calls), filter)
  ELSE LET calls == CallsOf(n, filter) IN
       <<[n |-> n, addr |-> addr, sub |-> Len(calls)]>> \o FlatList(calls, addr, 0, filter)

\* structural statement of C19 on the expected flat list (design sanity; the harness checks it on the real output)
FlatWF(filter) ==
  LET fl == Flat(1, <<>>, filter) IN
  /\ \A i, j \in 1..Len(fl) : i # j => fl[i].addr # fl[j].addr /\ fl[i].n # fl[j].n
  /\ \A i \in 1..Len(fl) : fl[i].addr # <<>> =>
        \E j \in 1..Len(fl) : fl[j].addr = SubSeq(fl[i].addr, 1, Len(fl[i].addr) - 1)
  /\ \A i \in 1..Len(fl) : fl[i].sub = Cardinality({j \in 1..Len(fl) : Len(fl[j].addr) = Len(fl[i].addr) + 1
                                                      /\ SubSeq(fl[j].addr, 1, Len(fl[i].addr)) = fl[i].addr})
FlatDesign == done => (FlatWF(TRUE) /\ FlatWF(FALSE))

Expect ==
  [ evs   |-> evs,
    nodes |-> [n \in 1..Len(nodes) |-> [t |-> nodes[n].t, kind |-> nodes[n].kind, to |-> nodes[n].to, jp |-> nodes[n].jp,
                                       err |-> nodes[n].err, under |-> under[n]]],
    flat  |-> Flat(1, <<>>, FALSE),
    flatNoPre |-> Flat(1, <<>>, TRUE) ]
=============================================================================
