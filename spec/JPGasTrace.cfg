SPECIFICATION TSpec
CONSTANTS
  TraceFile = "trace.ndjson"
  Burns = {}
  Bodies = {}
  Gases = {}
  MaxAspects = 0
INVARIANT Report
CHECK_DEADLOCK FALSE
