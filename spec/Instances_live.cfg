SPECIFICATION FairSpec
CONSTANTS
  Inst = {1, 2}
  MaxSteps = 2
  WantSets = {{}, {"p0"}}
  Txs = {"W"}
  AllowCancel = TRUE
  DevNoCopy = FALSE
  DevDirtyPool = FALSE
  DevSharedAbort = FALSE
  DevSharedCtx = FALSE
PROPERTIES CancelLive
CHECK_DEADLOCK FALSE
