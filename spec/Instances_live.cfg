SPECIFICATION FairSpec
CONSTANTS
  Inst = {1, 2}
  MaxSteps = 2
  WantSets = {{}, {"p0", "rp"}}
  Txs = {"A"}
  AllowCancel = TRUE
  DevNoCopy = FALSE
  DevDirtyPool = FALSE
  DevSharedAbort = FALSE
PROPERTIES CancelLive
CHECK_DEADLOCK FALSE
