-------------------------- MODULE PrecompileScn --------------------------
EXTENDS Precompile, Json
Emit == PrintT("PC " \o ToJson([v |-> vec, e |-> Expect(vec)]))
=============================================================================
