--------------------------- MODULE KeyTreeScn ---------------------------
(* Every reachable state is a complete API history: print each one as JSON *)
(* for the conformance harness (verifh keytree).                           *)
EXTENDS KeyTree, Json
Emit == (Len(hist) >= 1) => PrintT("KT " \o ToJson(Expect))
=============================================================================
