SPECIFICATION Spec
CONSTANTS
  Kinds = {"vv", "vr", "mem", "inv", "vrbig", "stk", "vrseq"}
  MaxStrLen = 100
  Forks = {"Frontier", "Byzantium", "London", "Cancun"}
  WorkBound = 8192
  RunAlloc = 262144
INVARIANTS RoundTrip BadEncodingsRefused FieldWidth Emit
CHECK_DEADLOCK FALSE
