SPECIFICATION Spec
CONSTANTS
  Kinds = {"vv", "vr", "mem", "inv", "vrbig", "stk"}
  MaxStrLen = 100
  Forks = {"Frontier", "Byzantium", "London", "Cancun"}
  WorkBound = 8192
INVARIANTS RoundTrip BadEncodingsRefused FieldWidth Emit
CHECK_DEADLOCK FALSE
