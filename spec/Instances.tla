----------------------------- MODULE Instances -----------------------------
(***************************************************************************)
(* Several EVM instances in one process (C16, C17).                        *)
(*                                                                         *)
(* Shared by all instances of the real code: the package-level jump tables *)
(* (one per fork), the stack pool, and - per instance but written from     *)
(* other goroutines - the abort flag.  Construction is modelled as the Go  *)
(* code performs it (NewEVMInterpreter): pick the fork's table, deep-copy  *)
(* it iff extra EIPs are configured, enable the extra EIPs on whatever the *)
(* instance's table pointer refers to.  Execution is abstracted to a       *)
(* probe (an opcode that is valid only with an extra EIP) followed by a    *)
(* loop whose every iteration polls the abort flag, as JUMP/JUMPI do.      *)
(* Extra EIPs come in two flavours: "p0" adds an opcode (EIP-3855), "rp"    *)
(* reprices existing constant-price opcodes in place (EIP-1884 on a        *)
(* pre-Istanbul fork).                                                     *)
(*                                                                         *)
(* Also shared: the process-wide precompile objects.  The context writer   *)
(* (0x66) must learn its caller from a per-call copy (CloneWithCtx); the   *)
(* registered object itself never holds a caller, which is what makes it   *)
(* refuse STATICCALL / DELEGATECALL / CALLCODE.  Transactions "W" (a CALL   *)
(* to 0x66 in every iteration after the first) and "R" (the three other    *)
(* call kinds to 0x66) exercise it; attaching the caller (WSet) and        *)
(* running the precompile (inside Step) are separate steps, as in EVM.Call *)
(* where the value transfer lies between them.                             *)
(* Deviation switches describe the mistakes the properties exclude:        *)
(*   DevNoCopy      EnableEIP is applied to the shared table               *)
(*   DevDirtyPool   a stack goes back to the pool without being emptied    *)
(*   DevSharedAbort the abort flag is process-wide instead of per instance *)
(*   DevSharedCtx   the caller is attached to the registered 0x66 object   *)
(***************************************************************************)
EXTENDS Integers, Sequences, FiniteSets, TLC

CONSTANTS Inst, MaxSteps, WantSets, Txs, AllowCancel, DevNoCopy, DevDirtyPool, DevSharedAbort, DevSharedCtx

VARIABLES shared,   \* extra EIPs enabled in the fork's shared jump table (must stay {})
          tref,     \* instance -> "none" | "shared" | "own"
          own,      \* instance -> extra EIPs enabled in its private copy
          pool,     \* Seq of leftover lengths of the stacks in the pool
          ph,       \* instance -> "new" | "picked" | "copied" | "ready" | "running" | "done"
          steps,    \* instance -> loop iterations executed
          abort,    \* instance -> BOOLEAN (or one process-wide flag under DevSharedAbort, kept in abort[CHOOSE i : TRUE])
          cancelled,\* instance -> Cancel(i) has been called
          res,      \* instance -> "" | "ok" | "invalid" | "cancelled"
          got,      \* instance -> leftover length of the stack it was handed (-1 before)
          seen,     \* instance -> the extra EIPs in force in the table it executed its first instruction with ({"?"} before)
          after,    \* instance -> loop iterations started after Cancel(i)
          pcctx,    \* caller held by the registered context-writer object: 0 = none (must stay 0), else an instance
          wpend,    \* instance -> its CALL to 0x66 has attached the caller and not yet run the precompile
          wattr,    \* instance -> Seq of instances its context writes were attributed to
          rres,     \* instance -> Seq of outcomes ("refused" / "accepted") of its non-CALL attempts on 0x66
          want, tx, \* chosen once: extra EIPs and transaction of each instance
          hist

vars == <<shared, tref, own, pool, ph, steps, abort, cancelled, res, got, seen, after, pcctx, wpend, wattr, rres, want, tx, hist>>

Init ==
  /\ shared = {} /\ tref = [i \in Inst |-> "none"] /\ own = [i \in Inst |-> {}] /\ pool = <<>>
  /\ ph = [i \in Inst |-> "new"] /\ steps = [i \in Inst |-> 0] /\ abort = [i \in Inst |-> FALSE]
  /\ cancelled = [i \in Inst |-> FALSE] /\ res = [i \in Inst |-> ""] /\ got = [i \in Inst |-> -1] /\ seen = [i \in Inst |-> {"?"}] /\ after = [i \in Inst |-> 0]
  /\ pcctx = 0 /\ wpend = [i \in Inst |-> FALSE] /\ wattr = [i \in Inst |-> <<>>] /\ rres = [i \in Inst |-> <<>>]
  /\ want \in [Inst -> WantSets] /\ tx \in [Inst -> Txs]
  /\ hist = <<>>

H(i, a) == hist' = Append(hist, [i |-> i, a |-> a])
TableOf(i) == IF tref[i] = "own" THEN own[i] ELSE shared
Aborted(i) == IF DevSharedAbort THEN \E j \in Inst : abort[j] ELSE abort[i]

\* NewEVMInterpreter, as three steps
Pick(i) ==
  /\ ph[i] = "new" /\ ph' = [ph EXCEPT ![i] = "picked"] /\ tref' = [tref EXCEPT ![i] = "shared"]
  /\ H(i, "pick") /\ UNCHANGED <<shared, own, pool, steps, abort, cancelled, res, got, seen, after, pcctx, wpend, wattr, rres, want, tx>>
Copy(i) ==
  /\ ph[i] = "picked" /\ ph' = [ph EXCEPT ![i] = "copied"]
  /\ IF want[i] # {} /\ ~DevNoCopy
     THEN tref' = [tref EXCEPT ![i] = "own"] /\ own' = [own EXCEPT ![i] = shared]
     ELSE UNCHANGED <<tref, own>>
  /\ H(i, "copy") /\ UNCHANGED <<shared, pool, steps, abort, cancelled, res, got, seen, after, pcctx, wpend, wattr, rres, want, tx>>
Enable(i) ==
  /\ ph[i] = "copied" /\ ph' = [ph EXCEPT ![i] = "ready"]
  /\ IF tref[i] = "own" THEN own' = [own EXCEPT ![i] = @ \cup want[i]] /\ UNCHANGED shared
     ELSE shared' = shared \cup want[i] /\ UNCHANGED own
  /\ H(i, "enable") /\ UNCHANGED <<tref, pool, steps, abort, cancelled, res, got, seen, after, pcctx, wpend, wattr, rres, want, tx>>

\* entering the interpreter loop: a stack is taken from the pool (or allocated)
Start(i) ==
  /\ ph[i] = "ready" /\ ph' = [ph EXCEPT ![i] = "running"]
  /\ IF pool = <<>> THEN got' = [got EXCEPT ![i] = 0] /\ UNCHANGED pool
     ELSE got' = [got EXCEPT ![i] = Head(pool)] /\ pool' = Tail(pool)
  /\ H(i, "start") /\ UNCHANGED <<shared, tref, own, steps, abort, cancelled, res, seen, after, pcctx, wpend, wattr, rres, want, tx>>

Return(i, leftover) == pool' = Append(pool, IF DevDirtyPool THEN leftover ELSE 0)

\* one loop iteration: the first executes the probe opcode, every one polls the abort flag at its jump
Step(i) ==
  /\ ph[i] = "running"
  /\ IF steps[i] = 0 /\ "p0" \notin TableOf(i)
     THEN /\ res' = [res EXCEPT ![i] = "invalid"] /\ ph' = [ph EXCEPT ![i] = "done"] /\ Return(i, 1)
          /\ UNCHANGED <<steps, after>>
     ELSE IF Aborted(i)
     THEN /\ res' = [res EXCEPT ![i] = "cancelled"] /\ ph' = [ph EXCEPT ![i] = "done"] /\ Return(i, 2)
          /\ UNCHANGED steps
          /\ after' = [after EXCEPT ![i] = IF cancelled[i] THEN @ + 1 ELSE @]
     ELSE IF steps[i] + 1 = MaxSteps
     THEN /\ res' = [res EXCEPT ![i] = "ok"] /\ ph' = [ph EXCEPT ![i] = "done"] /\ Return(i, 0)
          /\ steps' = [steps EXCEPT ![i] = @ + 1] /\ UNCHANGED after
     ELSE /\ steps' = [steps EXCEPT ![i] = @ + 1] /\ UNCHANGED <<res, ph, pool, after>>
  /\ seen' = IF steps[i] = 0 /\ seen[i] = {"?"} THEN [seen EXCEPT ![i] = TableOf(i)] ELSE seen
  \* the iteration's call to the context writer (every iteration after the first; it happens before the jump that polls the abort flag)
  /\ LET writes == tx[i] = "W" /\ steps[i] >= 1
         reads == tx[i] = "R" /\ steps[i] >= 1
     IN /\ writes => wpend[i]
        /\ wattr' = IF writes THEN [wattr EXCEPT ![i] = Append(@, IF DevSharedCtx THEN pcctx ELSE i)] ELSE wattr
        /\ wpend' = IF writes THEN [wpend EXCEPT ![i] = FALSE] ELSE wpend
        /\ rres' = IF reads THEN [rres EXCEPT ![i] = Append(@, IF pcctx = 0 THEN "refused" ELSE "accepted")] ELSE rres
  /\ H(i, "step") /\ UNCHANGED <<shared, tref, own, abort, cancelled, got, pcctx, want, tx>>

\* EVM.Call on 0x66, first half: the caller is attached - to a per-call copy, or (DevSharedCtx) to the registered object
WSet(i) ==
  /\ ph[i] = "running" /\ tx[i] = "W" /\ steps[i] >= 1 /\ ~wpend[i]
  /\ wpend' = [wpend EXCEPT ![i] = TRUE]
  /\ pcctx' = IF DevSharedCtx THEN i ELSE pcctx
  /\ H(i, "wset") /\ UNCHANGED <<shared, tref, own, pool, ph, steps, abort, cancelled, res, got, seen, after, wattr, rres, want, tx>>

\* EVM.Cancel from another goroutine, at any moment
Cancel(i) ==
  /\ AllowCancel /\ ~cancelled[i] /\ ph[i] \in {"ready", "running"}
  /\ abort' = [abort EXCEPT ![i] = TRUE] /\ cancelled' = [cancelled EXCEPT ![i] = TRUE]
  /\ H(i, "cancel") /\ UNCHANGED <<shared, tref, own, pool, ph, steps, res, got, seen, after, pcctx, wpend, wattr, rres, want, tx>>

Next == \E i \in Inst : Pick(i) \/ Copy(i) \/ Enable(i) \/ Start(i) \/ WSet(i) \/ Step(i) \/ Cancel(i)
Spec == Init /\ [][Next]_vars
FairSpec == Spec /\ \A i \in Inst : WF_vars(Step(i)) /\ WF_vars(WSet(i)) /\ WF_vars(Start(i)) /\ WF_vars(Pick(i)) /\ WF_vars(Copy(i)) /\ WF_vars(Enable(i))

---------------------------------------------------------------------------
AllDone == \A i \in Inst : ph[i] = "done"
Solo(i) == IF "p0" \in want[i] THEN "ok" ELSE "invalid"

\* C17: shared tables are never written
SharedImmutable == shared = {} /\ pcctx = 0
\* C17/C16: the outcome of an instance is a function of its own configuration and transaction (and of its own Cancel)
Isolation == \A i \in Inst : /\ (ph[i] = "done" /\ res[i] # "cancelled") => res[i] = Solo(i)
                             /\ seen[i] \in {{"?"}, want[i]}     \* new opcodes and repriced opcodes alike: exactly its own extra EIPs
                             /\ \A k \in 1..Len(wattr[i]) : wattr[i][k] = i     \* its context writes are attributed to its own contract
                             /\ \A k \in 1..Len(rres[i]) : rres[i][k] = "refused"   \* whatever other instances did before
Determinism == \A i, j \in Inst : (ph[i] = "done" /\ ph[j] = "done" /\ want[i] = want[j] /\ tx[i] = tx[j] /\ ~cancelled[i] /\ ~cancelled[j]) => res[i] = res[j]
CancelOnlyOwn == \A i \in Inst : res[i] = "cancelled" => cancelled[i]
\* C17: a stack handed out by the pool is empty
PoolHygiene == \A i \in Inst : got[i] \in {-1, 0}
\* C17: after Cancel(i) the loop polls the flag at its very next jump
CancelStops == \A i \in Inst : after[i] <= 1 /\ (cancelled[i] /\ ph[i] = "done" /\ res[i] = "ok" => steps[i] = MaxSteps)
CancelLive == \A i \in Inst : (cancelled[i] /\ ph[i] = "running") ~> (ph[i] = "done")
TypeOK == \A i \in Inst : steps[i] \in 0..MaxSteps

Expect == [hist |-> hist, want |-> [i \in Inst |-> (IF "p0" \in want[i] THEN 1 ELSE 0) + (IF "rp" \in want[i] THEN 2 ELSE 0)], tx |-> tx, res |-> res, cancelled |-> cancelled, wattr |-> wattr, rres |-> rres]
=============================================================================
